#!/bin/bash
# usage: tools/rundemo.sh <demo _test.go file> <package dir relative to /repo> [test regex]
# Runs a demonstration test against /repo's working tree via -overlay (repo untouched).
export GOFLAGS=-mod=mod GOPROXY=off GOSUMDB=off GOTOOLCHAIN=local
f=$(readlink -f "$1"); pkg="$2"; pat="${3:-^TestZZDemo}"
tmp=$(mktemp -d); trap 'rm -rf $tmp' EXIT
echo "{\"Replace\": {\"/repo/$pkg/zz_demo_test.go\": \"$f\"}}" > $tmp/ov.json
cd /repo/$pkg && go test -overlay $tmp/ov.json -vet=off -count=1 -timeout 120s -run "$pat" -v . 2>&1 | tail -30
