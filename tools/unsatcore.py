#!/usr/bin/env python3
"""usage: tools/unsatcore.py <query.smt2>  — drops the goal, names the assertions, prints the unsat core (debugging dead paths)."""
import re, subprocess, sys
s = open(sys.argv[1]).read()
lines = s.split("\n")
# drop the final goal (last assert before check-sat)
last = max(i for i, l in enumerate(lines) if l.startswith("(assert "))
if "--keep-goal" not in sys.argv:
    lines.pop(last)
out, n = [], 0
for l in lines:
    if l.startswith("(assert ") and l.endswith(")"):
        n += 1
        out.append("(assert (! %s :named a%d))" % (l[8:-1], n))
    elif l.startswith("(check-sat)"):
        out.append("(check-sat)\n(get-unsat-core)")
    elif l.startswith("(get-model)") or l.startswith("(get-value"):
        pass
    else:
        out.append(l)
t = "\n".join(out).replace("(set-option :produce-models true)", "(set-option :produce-unsat-cores true)")
open("/tmp/_core.smt2", "w").write(t)
r = subprocess.run((["z3", "-T:100", "smt.random_seed=15838", "sat.random_seed=15838", "/tmp/_core.smt2"] if "--old" in sys.argv else ["z3-new", "-T:60", "/tmp/_core.smt2"]), capture_output=True, text=True).stdout
print(r[:400])
idx = {int(c) for c in re.findall(r"\ba(\d+)\b", r)}
n = 0
for l in lines:
    if l.startswith("(assert ") and l.endswith(")"):
        n += 1
        if n in idx:
            print(n, l[:700])
