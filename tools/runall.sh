#!/bin/bash
# run every claimed check's quick command (rewrites the evidence files); prints one line per property
cd /verif
for p in $(python3 -c "import json;print(' '.join(c['property_id'] for c in json.load(open('MANIFEST.json'))['checks']))"); do
  out=$(./check $p --tier quick 2>&1); code=$?
  echo "$p exit=$code $(echo "$out" | grep "^$p tier" )"
  if [ $code -ne 0 ]; then echo "$out" | grep -i "VIOLATION\|ENGINE" | head -5; fi
done
python3-vt - <<'PY'
import json,jsonschema,glob
s=json.load(open('/root/.vp/EVIDENCE.schema.json'))
for f in sorted(glob.glob('/verif/evidence/*.json')):
    d=json.load(open(f)); jsonschema.validate(d,s)
    c=d['coverage']; assert c['obligations']==c['discharged'], f
print('evidence ok')
PY
