#!/usr/bin/env python3
"""C03: BOUNDED stand-in (not a proof). Runs the two exhaustive harnesses in /verif/bounded against /repo's
working tree (go test -overlay, /repo untouched), writes /verif/evidence/C03.json (level exploration, labelled
bounded) and prints a VIOLATION line with a replay file when the real code disagrees with the sorted-set model.
usage: bounded_c03.py [--tier quick|thorough] [--replay file]"""
import json, os, subprocess, sys, tempfile, time

tier = os.environ.get("VERIF_TIER", "quick")
args = sys.argv[1:]
if "--tier" in args:
    tier = args[args.index("--tier") + 1]
t0 = time.time()
env = dict(os.environ, GOFLAGS="-mod=mod", GOPROXY="off", GOSUMDB="off", GOTOOLCHAIN="local")
if tier == "thorough":
    env["C03_THOROUGH"] = "1"
tmp = tempfile.mkdtemp(prefix="c03_")
ov = os.path.join(tmp, "ov.json")
json.dump({"Replace": {"/repo/ds/tree/btree/zz_bounded_test.go": "/verif/bounded/C03_btree_bounded_test.go",
                       "/repo/ds/tree/zz_bounded_test.go": "/verif/bounded/C03_tree_bounded_test.go"}}, open(ov, "w"))
env["C03_STATS"] = os.path.join(tmp, "core.json")
env["C03_STATS_W"] = os.path.join(tmp, "wrap.json")
runs = [("/repo/ds/tree/btree", "TestZZBoundedC03$"), ("/repo/ds/tree", "TestZZBoundedC03Wrapper$")]
outs, failed = [], False
for d, pat in runs:
    r = subprocess.run(["go", "test", "-overlay", ov, "-vet=off", "-count=1", "-timeout", "1500s", "-run", pat, "."],
                       cwd=d, env=env, capture_output=True, text=True)
    outs.append(r.stdout[-3000:] + r.stderr[-3000:])
    if r.returncode != 0:
        failed = True
def load(p):
    try:
        return json.load(open(p))
    except Exception:
        return {}
core, wrap = load(env["C03_STATS"]), load(env["C03_STATS_W"])
subprocess.run(["rm", "-rf", tmp])
os.makedirs("/verif/out/C03/replays", exist_ok=True)
viol = 0
if failed:
    viol = 1
    rp = "/verif/out/C03/replays/C03_bounded.json"
    json.dump({"property": "C03", "kind": "bounded stand-in disagreement with the sorted-set model",
               "failure_core": core.get("failure", ""), "failure_wrapper": wrap.get("failure", ""),
               "go_test_output": outs,
               "rerun": "python3 /verif/tools/bounded_c03.py --tier " + tier}, open(rp, "w"), indent=1)
    print("VIOLATION property=C03 replay=%s" % rp)
    for o in (core.get("failure"), wrap.get("failure")):
        if o:
            print("  " + o, file=sys.stderr)
    if not core.get("failure") and not wrap.get("failure"):
        print("  the harness did not complete (build error or panic):\n" + "\n".join(outs)[-1500:], file=sys.stderr)
seqs = core.get("sequences", 0) + wrap.get("sequences", 0)
bounded = {
          "label": "BOUNDED stand-in, not a proof, never counted as proved",
          "evaluations": seqs,
          "distinct_nontrivial": core.get("distinct_tree_shapes", 0),
          "rule": "Exhaustive enumeration (no randomness): vendored btree: every sequence of insert/delete operations of length <= %s over keys 0..%s for degrees 2 and 3, plus every insertion order of 0..%s followed by three deletions, and after every such insertion order every single key re-stored on a clone; wrapper ds/tree.BTree: every sequence of Insert/Delete/Update/UpdateOrInsert of length <= %s over keys 0..%s. After every sequence the tree is compared with a sorted-set model: Len, Get/Has with the most recently stored item, all four scans (inclusive/exclusive, ascending/descending) from every pivot -1..K with two filters and every limit 0..K+1, node-degree bounds (d-1..2d-1 items), equal leaf depth, item count, and clone isolation in both directions. distinct_nontrivial counts the distinct final tree shapes reached by the core harness." % (core.get("L"), (core.get("K") or 1) - 1, (core.get("P") or 1) - 1, wrap.get("L"), (wrap.get("K") or 1) - 1),
          "samples": core.get("samples", []),
          "scan_checks": core.get("scan_checks", 0) + wrap.get("scan_checks", 0),
          "exhaustive_within_bound": True,
          "disagreement": bool(failed),
          "not_explored": "trees deeper than the enumerated sequences reach, concurrent readers/writers",
}
# merge into the evidence written by govc for the wrapper proof (level proof: obligations of the wrapper only)
evp = "/verif/evidence/C03.json"
try:
    ev = json.load(open(evp))
except Exception:
    ev = {"property_id": "C03", "tier": tier, "seed": 0, "level": "other", "coverage": {"explanation": "govc evidence missing; bounded stand-in only"}, "wall_s": 0}
ev["coverage"]["bounded_standin"] = bounded
ev["coverage"]["explanation"] = "The obligations counted above are (a) the node-local building blocks of the vendored B-tree (slice helpers, items.find, node.split, mutableFor, mutableChild), (b) the lookups node.get / min / max proved relative to the one-level node invariant (ghost key sets), and (c) the locked wrapper ds/tree.BTree (Insert/Update/UpdateOrInsert/Delete/Get) proved over an ASSUMED abstract-map contract of the tree (/verif/extern/btree.spec). The mutating descent of the tree (insert, remove, growChildAndRemove), iterate, and with them ordered-set equivalence, scans, balance and clone isolation as whole-tree statements, and the scan wrappers, are NOT proved: they are covered only by the bounded stand-in reported under bounded_standin."
ev.setdefault("assumptions", []).append("bounded stand-in for the assumed B-tree contract and the scan wrappers: keys, sequence lengths and degrees as stated in coverage.bounded_standin.rule; not a proof")
ev["violations"] = int(ev.get("violations", 0)) + viol
ev["wall_s"] = float(ev.get("wall_s", 0)) + (time.time() - t0)
json.dump(ev, open(evp, "w"), indent=1)
print("C03 tier=%s (BOUNDED stand-in): %d sequences, %d distinct tree shapes, %d scan checks, %s, %.1fs" % (
    tier, seqs, core.get("distinct_tree_shapes", 0), bounded["scan_checks"], "DISAGREEMENT" if failed else "agreed with the sorted-set model", time.time() - t0))
sys.exit(1 if failed else 0)
