#!/usr/bin/env python3
"""Run the baseline's stable tests of the given packages (relative paths) with a timeout."""
import json, subprocess, sys, os
b = json.load(open('/root/.vp/BASELINE.json'))
pref = 'github.com/pinealctx/neptune/'
env = dict(os.environ, GOFLAGS='-mod=mod', GOPROXY='off', GOSUMDB='off', GOTOOLCHAIN='local')
rc = 0
for pkg in sys.argv[1:]:
    tests = [t.split('::')[1] for t in b['stable_pass'] if t.split('::')[0] == pref + pkg.strip('./')]
    if not tests:
        print(pkg, ': no stable tests; building only')
        r = subprocess.run(['go', 'test', '-vet=off', '-count=1', '-run', '^$', './' + pkg.strip('./')], cwd='/repo', env=env)
        rc |= r.returncode
        continue
    pat = '^(' + '|'.join(sorted(set(t.split('/')[0] for t in tests))) + ')$'
    r = subprocess.run(['go', 'test', '-vet=off', '-count=1', '-timeout', '600s', '-run', pat, './' + pkg.strip('./')], cwd='/repo', env=env, capture_output=True, text=True)
    print(pkg, len(tests), 'stable tests ->', 'ok' if r.returncode == 0 else 'FAIL')
    if r.returncode:
        print(r.stdout[-3000:], r.stderr[-2000:])
    rc |= r.returncode
sys.exit(rc)
