#!/bin/bash
# must-fail corpus: every patch in selftest/<prop>/ must make ./check <prop> exit 1 (VIOLATION);
# patches named neg_* are negative controls and must leave the check at exit 0.
# usage: tools/selftest.sh [PROP...]
cd /verif
if [ -n "$(git -C /repo status --porcelain)" ]; then echo "selftest: /repo has uncommitted changes (commit contract files first)"; exit 2; fi
props=("$@"); [ ${#props[@]} -eq 0 ] && props=($(ls selftest))
rc=0
for p in "${props[@]}"; do
  for patch in selftest/$p/*.patch; do
    [ -f "$patch" ] || continue
    name=$(basename $patch .patch)
    if ! git -C /repo apply --check "$PWD/$patch" 2>/dev/null; then echo "SELFTEST $p/$name: patch does not apply"; rc=1; continue; fi
    git -C /repo apply "$PWD/$patch"
    out=$(./check $p --tier quick -noreplay -out /tmp/selftest_out ${SELFTEST_EXTRA:-} 2>&1); code=$?
    git -C /repo checkout -- . 
    git -C /verif checkout -- evidence/$p.json 2>/dev/null   # a mutated run must not leave its evidence behind
    failed=$(echo "$out" | grep -c '^VIOLATION')
    case "$name" in
      neg_*) if [ $code -eq 0 ]; then echo "SELFTEST $p/$name: ok (negative control passes)"; else echo "SELFTEST $p/$name: FALSE ALARM (exit $code)"; echo "$out" | grep 'failed obligation' | head -5; rc=1; fi;;
      *) if [ $code -eq 1 ]; then echo "SELFTEST $p/$name: caught ($failed violations: $(echo "$out" | grep 'failed obligation' | sed 's/.*failed obligation \([^ ]*\).*/\1/' | head -3 | tr '\n' ' '))"; else echo "SELFTEST $p/$name: MISSED (exit $code)"; echo "$out" | tail -3; rc=1; fi;;
    esac
  done
done
rm -rf /tmp/selftest_out
exit $rc
