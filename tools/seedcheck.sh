#!/bin/bash
# usage: tools/seedcheck.sh <PROP> <worktree> <pkg dir relative> 
# 1. confirms in the scratch worktree: demo passes without the patch, fails with it, package still builds / its tests pass with it
# 2. stores the seed under /verif/seeded/<PROP>/ ; 3. applies the patch to /repo, runs ./check <PROP>, undoes it.
export GOFLAGS=-mod=mod GOPROXY=off GOSUMDB=off GOTOOLCHAIN=local
P=$1; W=$2; PKG=$3; S=$W/SEED
[ -f $S/patch.diff ] || { echo "no seed in $S"; exit 2; }
cd $W && git checkout -q -- . && cp $S/demo_test.go $W/$PKG/zz_seed_demo_test.go
t=$(grep -o "^func Test[A-Za-z0-9_]*" $S/demo_test.go | head -1 | sed 's/func //')
clean=$(cd $W/$PKG && go test -vet=off -count=1 -timeout 120s -run "^$t\$" . 2>&1 | tail -1)
git apply $S/patch.diff || { echo "patch does not apply"; exit 2; }
with=$(cd $W/$PKG && go test -vet=off -count=1 -timeout 120s -run "^$t\$" . 2>&1 | tail -1)
rm $W/$PKG/zz_seed_demo_test.go
builds=$(cd $W/$PKG && go build . 2>&1 | tail -1)
git checkout -q -- .
echo "demo on clean tree: $clean"; echo "demo with patch:    $with"; echo "build with patch: ${builds:-ok}"
D=/verif/seeded/$P; n=2; while [ -d $D ]; do D=/verif/seeded/${P}_$n; n=$((n+1)); done
mkdir -p $D && cp $S/patch.diff $S/demo_test.go $S/meta.json $D/
cd /verif
if [ -n "$(git -C /repo status --porcelain)" ]; then echo "/repo dirty"; exit 2; fi
git -C /repo apply $D/patch.diff || { echo "patch does not apply to /repo"; exit 2; }
out=$(./check $P --tier quick 2>&1); code=$?
git -C /repo checkout -- .
git -C /verif checkout -- evidence/$P.json 2>/dev/null   # the seeded run must not leave its evidence behind
echo "check $P with seed: exit=$code"; echo "$out" | grep "failed obligation" | cut -c1-220 | head -6; echo "$out" | grep "^VIOLATION" | head -3
