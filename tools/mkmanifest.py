#!/usr/bin/env python3
"""Writes /verif/MANIFEST.json from the table below (claimed checks + not_applicable with reasons)."""
import json, subprocess
TECH = "contract-based deductive verification: VCs generated from the real Go functions (go/ast+go/types) against contracts in guarded comment files, discharged by z3 4.8.12 / z3 5.1.0 / cvc5 1.0.3"
CLAIMED = {
 "C04": ("proof", "cache.LRUCache: Get/Peek/Exist/Set/SetIfAbsent/Delete/Clear/SetCapacity/Length/Size/Capacity/Evictions/Stats and the private updateInPlace/addNew/checkCapacity are proved against an abstract recency-ordered set (container/list ranked-set model): table/list bijection, size == sum of member sizes (SUM with finite-sum lemmas), size <= capacity at every unlock, eviction takes strictly the least recently used members first and nothing when it fits, Get/Set refresh recency, Peek/Exist change nothing; all fields accessed only under the mutex", "4/C04",
         "trusted: container/list ranked-set extern model, finite-sum and finite-cardinality lemmas (mathematical, not machine checked), Value.Size() in [0,2^62), counters below 2^62 (assumed at lock acquisition), capacity >= 0. Not decided yet: Keys/Items order, the *AndGetRemoved variants, cache/tiny.LRUCache and the sharded wrappers (not under contract yet)."),
 "C05": ("proof", "cache.ttlMemCache: Set/Get/Remove/Clear and set/get/remove/deadline against the abstract view live(k) = present and clock <= deadline: a hit iff live with the stored value, an elapsed key behaves as never set (set-if-absent succeeds, keep-ttl gets a fresh deadline), one-shot reads remove the key, update-ttl/keep-ttl deadlines, table/list bijection, at most `size` keys (size 0 included), eviction of the least recently used member only, for every option combination (option closures abstracted to arbitrary option values)", "4/C05",
         "trusted: container/list ranked-set model, sync.RWMutex model, clock constant within one operation, option closures arbitrary, ttl and clock below 2^62. Not decided: the redis-backed implementation and its agreement with the memory cache (no Cmdable contract built), remove-after-get at most once under races (follows from the write lock, meta-argument)."),
 "C06": ("proof", "every obligation of HardNode.Generate, MonoNode.Generate, NewNode, NewMonoNode, UnixNanoID/UnixNanoNoLockID.GenIDByTS, figureShift, IDFields and the lemmas compose_mono / fields_of_compose is discharged for all inputs, all clock readings and all six bit layouts (symbolic layout); lock discipline by lock-held obligations + monitor invariant", "4/C06",
         "trusted: time externs (wall clock arbitrary, monotonic clock monotone), sync.Mutex model, signed division by 1000000 axiomatised (monotone), timestamp ceiling as stated precondition, induction over calls as meta-argument. Not decided: termination of MonoNode's spin loop."),
 "C07": ("proof", "IDFields/IDParse split-recombine, id order lemma, TimeIDRange/TimeBetweenID exact interval (min<=id<=max <=> B<=ts<=E for every non-negative id) proved for all inputs and layouts", "4/C07",
         "trusted: time.Time.Unix extern. Not decided: the 24-character date form round trip (lives in time/fmt/strconv); only its arithmetic lemma is proved."),
 "C08": ("proof", "all 20 Bit64 iterators, Set/Unset/Len/NLen/Full/Reverse/And/Or, getNAs*/GetN*, init's table, and the Bit1024 layer (Set/Unset I32/I16, Len, NLen, Reverse, OrThenReverse, And, Or, Equal, 8 chained iterators, GetN*) against rank-based set specifications; popcount lemmas proved from the bit-level definition; result independent of the sparse threshold (atomic load returns any value)", "4/C08",
         "trusted: math/bits externs (OnesCount64=pc, TrailingZeros64, Len64 documented behaviour), constant-table rule for u64Tab, GetN* require n>=0 (make panics otherwise)."),
 "C09": ("proof", "Marshal (lengths, dense layout), Unmarshal (never panics for any byte string, error cases, dense layout, sparse path exact: accepted iff every pair is in [0,1023], resulting words = old | set denoted by the pairs), BigU32 / U32BitTip construction from integers, SetI64/SetU32 acceptance, and their ascending/descending iteration back to Start*1024+member, all for every input", "4/C09",
         "trusted: encoding/binary little-endian externs, the recursive definition of the denoted set acc (definitional axioms), C08 contracts at call sites. Not decided: decode(encode(b)) == b as a single lemma (both directions are specified and proved separately; the sparse Marshal byte content is delegated to GetNAsI16's contract only for its length), list forms BigU32s/U32BitTips."),
 "C12": ("proof", "queue/syncq.SyncQueue and the three pipe queues q.Q, async.Q, mux.Q: every method is proved against an abstract ordered-set specification (add at the back = rank above all, prior add = rank below all, pop removes the minimum-rank item and nothing else, closed/full refusals leave the content unchanged, Pop vs PopAnyway close semantics, SyncQueue drops pushes after close and hands out remaining items first); all state accessed only under the mutex (lock-held obligations) and the monitor invariant re-established at every release including Cond.Wait", "4/C12",
         "trusted: container/list ranked-set extern model with finite-set cardinality axioms, eapache queue extern, sync.Mutex/Cond model, distinct non-nil package error values. Not decided: mq.MQ (two-level queue) and priq.PriQueue (heap) are not under contract yet; FIFO over whole histories follows from the per-operation rank contracts by induction (meta-argument)."),
 "C13": ("proof", "no-lost-wake-up as monitor invariants over ghost counters of sync.Cond (sleepers = parked, woken = signalled and not yet resumed): SyncQueue: closed => no sleeper, open with sleepers => items <= woken; pipe queues: a sleeper exists only while the queue is empty and open (every add and close broadcasts). Proved at every release point of every method of syncq.SyncQueue, q.Q, async.Q, mux.Q", "4/C13",
         "trusted: sync.Cond ghost-counter model (Wait returns only after a signal reached the waiter), scheduler fairness. Not decided: liveness proper; mq.MQ; the priority queue's wake channel."),
 "C14": ("proof", "lane index contract of NormalizeSlotIndex proved for every int (64-bit vectors); the other clauses of C14 are not decided by this check", "4/C14",
         "Not decided: execution order/non-overlap in time, result routing, Stop semantics (goroutines/channels are outside the verified subset so far)."),
 "C17": ("proof", "NewReMap establishes a strictly ascending partition ending at MaxUint64; SearchUInt64s/SearchIndex return the unique shard in range; SimpleIndex is value mod shards for every integer width (sign extension included) and in range for every key", "4/C17",
         "trusted: sort.Search extern, xxhash determinism, options install 1<=prime<=2^31. Not decided: sharded containers == unsharded (composition with C01/C02/C04 contracts)."),
 "C18": ("proof", "Transact: every normal and panicking path (steps may return nil, an error, or panic with any value including nil) ends with exactly one of commit/rollback after a successful begin, commit iff every step succeeded, no step after the first failure, nil only after commit, never exits by panic; nothing begun for an empty list", "4/C18",
         "trusted: gorm Begin/Commit/Rollback extern contracts (ghost counters, no panic), step contract (any outcome). Not decided: Combine (returns a closure), database behaviour."),
 "C19": ("proof", "vcode: the cache key used by VerifySMSCode equals the one SendSMSCode stored under (uninterpreted Sprintf: same format and arguments); checkSend refuses inside the minimum interval and beyond the per-window count, opens a new window after the counter duration and accepts below the limit; checkVerify counts every attempt and succeeds iff attempts <= limit, code and hash match and the code is within its lifetime, with the specific error otherwise; updateSend resets the attempts; genNonceStr returns `length` characters of the alphabet and asks the random source for the full alphabet range (every character can occur, no Intn(0))", "4/C19",
         "trusted: time.Now/Sub externs (clock constant within a call), Sprintf as uninterpreted function, strings.Builder ghost, random source contract, cache facade records its key, counters below 2^62. Not decided: SendSMSCode/VerifySMSCode end-to-end over the cache contents, mock-mode code length, the send-count boundary value (left open by the statement)."),
 "C20": ("proof", "exact-or-error for the UnmarshalJSON of JsInt64, JsUInt64, JsByte (+FromString), JsUnixTime, JsNanoTime, UnixStamp, Duration: if decoding succeeds the token is a quoted string (or, for JsInt64, a bare numeral) whose content is a numeral and the stored value is exactly its value (bytes in 0..255, no wrap); never panics on well-formed tokens", "4/C20",
         "trusted: strconv/strings/time parsing externs over opaque numeral predicates, well-formed JSON token precondition. Not decided: encode->decode round trip as one lemma per type, Scan/Value pairs, base64 and hex helpers."),
}
NOT_YET = {
 "C01": "contracts for semap not written yet (needs the container/list ranked-set model); to be claimed when built",
 "C02": "contracts for keylock not written yet",
 "C03": "vendored B-tree is recursive copy-on-write heap code outside govc's subset; wrapper contracts + bounded stand-in not built yet",
 "C10": "bytex contracts (bytes.Buffer extern model) not built yet",
 "C11": "tex.Buffer contracts not built yet",
 "C15": "mux worker contracts not built yet",
 "C16": "stcp session contracts not built yet (goroutines/network: only thin safety clauses are within reach)",
}
import os, re
hooks = subprocess.run(["git", "-C", "/repo", "log", "--format=%h %s"], capture_output=True, text=True).stdout.splitlines()
hook_commits = [l.split()[0] for l in hooks if l.split(" ", 1)[1].startswith("verif:")]
checks = []
for pid in sorted(CLAIMED):
    cat, text, ref, note = CLAIMED[pid]
    checks.append({"property_id": pid, "quick_cmd": "./check %s --tier quick" % pid, "thorough_cmd": "./check %s --tier thorough" % pid,
                   "evidence_file": "/verif/evidence/%s.json" % pid, "replay_cmd_template": "./check %s --replay {path}" % pid, "engine": "govc",
                   "level_claimed": {"category": cat, "text": text, "design_ref": "DESIGN.md " + ref}, "level_note": note, "technique": TECH})
m = {"version": 1,
     "setup_cmd": "cd /verif/govc && GOFLAGS=-mod=mod GOPROXY=off GOSUMDB=off GOTOOLCHAIN=local go build -o /verif/bin/govc .",
     "hooks": {"guard": "verif", "enable": "go build -tags verif (contract files zz_contracts_verif.go are comment-only and compiled only under this tag; govc reads them next to the code)",
               "baseline_off_cmd": "cd /repo && go test -mod=mod -json -vet=off -count=1 -timeout 25m ./...", "source_commits": hook_commits, "add_only": True},
     "engines": [{"name": "govc", "path": "/verif/govc", "serves_properties": sorted(CLAIMED), "kind_free_text": "self-written verification-condition generator for a stated Go subset (symbolic execution with state merging over go/ast+go/types, loops cut at invariants, modular calls by contract, heap/slice/map model, monitor rule for mutexes) + SMT portfolio"}],
     "checks": checks,
     "not_applicable": [{"property_id": k, "reason": v} for k, v in sorted(NOT_YET.items()) if k not in CLAIMED],
     "notes": "MANIFEST generated by tools/mkmanifest.py. Properties listed under not_applicable with 'not built yet' are work in progress, not judged inapplicable."}
json.dump(m, open("/verif/MANIFEST.json", "w"), indent=1)
print("claimed", sorted(CLAIMED), "not_applicable", len(m["not_applicable"]))
