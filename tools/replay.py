#!/usr/bin/env python3
"""Re-run the Go test stored in a replay record against /repo (overlay, repo untouched)."""
import json, os, subprocess, sys, tempfile
prop, path = sys.argv[1], sys.argv[2]
rec = json.load(open(path))
print("obligation:", rec.get("obligation"))
print("solver:", rec.get("status"), rec.get("solver"))
if rec.get("rerun"):
    # bounded stand-in (C03): the replay is a re-run of the exhaustive harness, which stops at the first disagreement
    print(rec.get("failure_core") or rec.get("failure_wrapper") or "")
    sys.exit(subprocess.call(rec["rerun"], shell=True))
src = rec.get("test_source")
if not src:
    print("no executable replay in this record:", rec.get("test_result"))
    print(rec.get("solver_output", "")[:4000])
    sys.exit(1)
pkgdir = rec["test_cmd"].split("(in ")[1].rstrip(")")
with tempfile.TemporaryDirectory() as tmp:
    tf = os.path.join(tmp, "zz_replay_test.go")
    open(tf, "w").write(src)
    ov = os.path.join(tmp, "ov.json")
    json.dump({"Replace": {os.path.join(pkgdir, "zz_replay_test.go"): tf}}, open(ov, "w"))
    env = dict(os.environ, GOFLAGS="-mod=mod", GOPROXY="off", GOSUMDB="off", GOTOOLCHAIN="local")
    r = subprocess.run(["go", "test", "-tags", "verif", "-overlay", ov, "-vet=off", "-count=1", "-timeout", "60s", "-run", "^TestZZReplay$", "-v", "."], cwd=pkgdir, env=env, capture_output=True, text=True)
    print(r.stdout + r.stderr)
    bad = [l for l in r.stdout.splitlines() if l.startswith("ZZREPLAY panic=") or (l.startswith("ZZREPLAY post#") and l.endswith("=false"))]
    if bad:
        print("VIOLATION property=%s replay=%s" % (prop, path))
        sys.exit(1)
    sys.exit(0)
