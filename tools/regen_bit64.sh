#!/bin/bash
# regenerate the GENERATED block of the internal contract file from the schema
python3 /verif/govc/schema/gen_bit64.py > /tmp/gen64.txt
python3 - <<'PY'
p='/repo/bitmap1024/internal/zz_contracts_verif.go'
s=open(p).read()
if '// GENERATED BEGIN' in s:
    s=s[:s.index('// GENERATED BEGIN')]
s=s.rstrip('\n')+'\n//\n// GENERATED BEGIN (by /verif/govc/schema/gen_bit64.py)\n'+open('/tmp/gen64.txt').read()+'\n// GENERATED END\n'
open(p,'w').write(s)
PY
