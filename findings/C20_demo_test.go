package tex

// Demonstration of the C20 defects on the real code: bare JSON numbers lose their first and last digit,
// and byte lists wrap values above 255.
import (
	"testing"
	"time"
)

func TestZZDemoBareNumberMisdecoded(t *testing.T) {
	var u JsUInt64
	if err := u.UnmarshalJSON([]byte(`12345`)); err == nil && u != 12345 {
		t.Errorf("JsUInt64 <- 12345 decoded to %d", u)
	}
	var s UnixStamp
	if err := s.UnmarshalJSON([]byte(`12345`)); err == nil && s != 12345 {
		t.Errorf("UnixStamp <- 12345 decoded to %d", s)
	}
	var ut JsUnixTime
	if err := ut.UnmarshalJSON([]byte(`12345`)); err == nil && time.Time(ut).Unix() != 12345 {
		t.Errorf("JsUnixTime <- 12345 decoded to %d", time.Time(ut).Unix())
	}
	var nt JsNanoTime
	if err := nt.UnmarshalJSON([]byte(`12345`)); err == nil && time.Time(nt).UnixNano() != 12345 {
		t.Errorf("JsNanoTime <- 12345 decoded to %d", time.Time(nt).UnixNano())
	}
	var d Duration
	if err := d.UnmarshalJSON([]byte(`11h5`)); err == nil {
		t.Errorf("Duration <- 11h5 (not a JSON string) decoded to %v", time.Duration(d))
	}
	var b JsByte
	if err := b.UnmarshalJSON([]byte(`712/37`)); err == nil {
		t.Errorf("JsByte <- 712/37 (not a JSON string) decoded to %v", []byte(b))
	}
}

func TestZZDemoByteWraps(t *testing.T) {
	var b JsByte
	if err := b.UnmarshalJSON([]byte(`"300/1"`)); err == nil {
		t.Errorf("JsByte <- \"300/1\" decoded to %v", []byte(b))
	}
}
