package semap

// Demonstration of the C01 defect on the real code (run: tools/rundemo.sh findings/C01_demo_test.go syncx/semap).
import (
	"context"
	"testing"
	"time"
)

// Weighted.release reported "idle" whenever nobody was waiting, even with holders left: SemMap.release then
// deleted the key's entry, the next acquire created a second semaphore for the same key, and a writer was
// admitted beside the remaining reader.
func TestZZDemoWriterBesideReader(t *testing.T) {
	var m = NewSemMap(WithRwRatio(2))
	var ctx = context.Background()
	w1, _ := m.AcquireRead(ctx, "k")
	w2, _ := m.AcquireRead(ctx, "k")
	m.ReleaseRead("k", w1)
	c, cancel := context.WithTimeout(ctx, 200*time.Millisecond)
	defer cancel()
	w3, err := m.AcquireWrite(c, "k")
	if err == nil {
		t.Fatalf("writer admitted while a reader still holds key k: reader's semaphore %p (cur=%d), writer's semaphore %p (cur=%d)", w2, w2.cur, w3, w3.cur)
	}
	m.ReleaseRead("k", w2)
	if n := len(m.(*SemMap).m); n != 0 {
		t.Fatalf("%d entries left after every holder released", n)
	}
}

// the same defect from the other side: a release that admits the last waiter deleted the entry the waiter now holds
func TestZZDemoAdmittedWaiterLosesEntry(t *testing.T) {
	var m = NewSemMap(WithRwRatio(2))
	var ctx = context.Background()
	w1, _ := m.AcquireWrite(ctx, "k")
	var got = make(chan *Weighted)
	go func() { w, _ := m.AcquireWrite(ctx, "k"); got <- w }()
	time.Sleep(50 * time.Millisecond) // the second writer is queued
	m.ReleaseWrite("k", w1)
	var w2 = <-got
	if _, ok := m.(*SemMap).m["k"]; !ok {
		t.Fatalf("entry for k deleted although the admitted waiter holds it (cur=%d)", w2.cur)
	}
}
