package bitmap1024

// Demonstration of the two C09 defects on the real code (run with tools/rundemo.sh; injected by -overlay).
import "testing"

func TestZZDemoBigU32Overflow(t *testing.T) {
	v := int64(1)<<32 + 5 // block Start = 4194304, member 5; inside the documented range
	b, err := NewBigU32FromI64(v)
	if err != nil {
		t.Fatal(err)
	}
	got := b.GetNAsI64(4)
	if len(got) != 1 || got[0] != v {
		t.Fatalf("BigU32 built from %d iterates back to %v", v, got)
	}
}

func TestZZDemoU32BitTipOrder(t *testing.T) {
	b := NewU32BitTipFromU32(7)
	_ = b.SetU32(9)
	asc, desc := b.GetNAsU32(4), b.RGetNAsU32(4)
	if len(asc) != 2 || asc[0] != 7 || asc[1] != 9 {
		t.Fatalf("GetNAsU32 (ascending) = %v", asc)
	}
	if len(desc) != 2 || desc[0] != 9 || desc[1] != 7 {
		t.Fatalf("RGetNAsU32 (descending) = %v", desc)
	}
}
