package cache

// Demonstration of the C05 defects of ttlMemCache.set on the real code (clock driven through the package variable `now`).
import (
	"context"
	"testing"
)

func TestZZDemoTTLElapsedKeyMustNotExist(t *testing.T) {
	clock := int64(1000)
	now = func() int64 { return clock }
	c := NewTTLMemCache(4, 10)
	ctx := context.Background()
	if err := c.Set(ctx, "k", []byte("v1")); err != nil {
		t.Fatal(err)
	}
	clock += 100 // ttl elapsed: the key must behave as never set
	if _, err := c.Get(ctx, "other"); err == nil {
		t.Fatal("unexpected hit")
	}
	if err := c.Set(ctx, "k", []byte("v2"), WithMustNotExist()); err != nil {
		t.Fatalf("set-if-absent on an elapsed key: %v", err)
	}
}

func TestZZDemoTTLKeepTTLOnElapsedKey(t *testing.T) {
	clock := int64(1000)
	now = func() int64 { return clock }
	c := NewTTLMemCache(4, 10)
	ctx := context.Background()
	_ = c.Set(ctx, "k", []byte("v1"))
	clock += 100
	_ = c.Set(ctx, "k", []byte("v2"), WithKeepTTL()) // elapsed key behaves as never set: fresh ttl
	if v, err := c.Get(ctx, "k"); err != nil || string(v) != "v2" {
		t.Fatalf("after re-setting an elapsed key with keep-ttl: %q %v", v, err)
	}
}

func TestZZDemoTTLSizeZero(t *testing.T) {
	clock := int64(1000)
	now = func() int64 { return clock }
	c := NewTTLMemCache(0, 10)
	ctx := context.Background()
	_ = c.Set(ctx, "a", []byte("1"))
	if v, err := c.Get(ctx, "a"); err == nil {
		t.Fatalf("a cache of size 0 serves %q", v)
	}
}
