package random

// Demonstration of the C19 defect in genNonceStr on the real code: the last character of the alphabet is
// never produced (the random source is asked for bSize-1 values), and a one-character alphabet panics.
import "testing"

func TestZZDemoLastAlphabetCharNeverDrawn(t *testing.T) {
	next := 0
	// a source that walks through every value it is allowed to return
	fn := func(n int) int { next++; return next % n }
	s := genNonceStr("0123456789", 200, fn)
	seen9 := false
	for i := 0; i < len(s); i++ {
		if s[i] == '9' {
			seen9 = true
		}
	}
	if !seen9 {
		t.Fatalf("200 draws cycling through the whole allowed range never produced '9': %s", s[:40])
	}
}
