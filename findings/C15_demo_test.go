package mux

// Demonstration of the C15 defect on the real code (run: tools/rundemo.sh findings/C15_demo_test.go syncx/pipe/mux).
import (
	"context"
	"math"
	"testing"
)

// locHash negated the hash before the modulo: -MinInt64 is MinInt64, the remainder stays negative and the worker
// table is indexed with -1 (default group of 127 workers).
func TestZZDemoLocHashMinInt(t *testing.T) {
	var g = NewWorkGrpWithMapCache()
	defer func() {
		if r := recover(); r != nil {
			t.Fatalf("DoGet with key Int64(MinInt64) panicked: %v", r)
		}
	}()
	var i = g.locHash(Int64(math.MinInt64))
	if i < 0 || i >= g.MuxSize() {
		t.Fatalf("locHash(MinInt64) = %d, outside [0,%d)", i, g.MuxSize())
	}
	g.Start()
	_, _ = g.DoGet(context.Background(), func(ctx context.Context, d interface{}) (interface{}, error) { return 1, nil }, Int64(math.MinInt64))
	g.Stop()
}
