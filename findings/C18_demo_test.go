package gormx

// Demonstration of the C18 defect on the real code: a step that does panic(nil) gets its transaction
// COMMITTED (module go directive 1.19: recover() returns nil after panic(nil)).
import (
	"context"
	"database/sql"
	"testing"

	"gorm.io/gorm"
	"gorm.io/gorm/utils/tests"
)

type zzPool struct{ commits, rollbacks *int }

func (p *zzPool) PrepareContext(ctx context.Context, query string) (*sql.Stmt, error) { return nil, nil }
func (p *zzPool) ExecContext(ctx context.Context, query string, args ...interface{}) (sql.Result, error) {
	return nil, nil
}
func (p *zzPool) QueryContext(ctx context.Context, query string, args ...interface{}) (*sql.Rows, error) {
	return nil, nil
}
func (p *zzPool) QueryRowContext(ctx context.Context, query string, args ...interface{}) *sql.Row {
	return nil
}
func (p *zzPool) BeginTx(ctx context.Context, opts *sql.TxOptions) (gorm.ConnPool, error) { return p, nil }
func (p *zzPool) Commit() error                                                        { *p.commits++; return nil }
func (p *zzPool) Rollback() error                                                      { *p.rollbacks++; return nil }

func TestZZDemoTransactPanicNil(t *testing.T) {
	var commits, rollbacks int
	db, err := gorm.Open(tests.DummyDialector{}, &gorm.Config{ConnPool: &zzPool{&commits, &rollbacks}, SkipDefaultTransaction: true})
	if err != nil {
		t.Fatal(err)
	}
	ran2 := false
	res := Transact(db, func(txn *gorm.DB) error { panic(nil) }, func(txn *gorm.DB) error { ran2 = true; return nil })
	t.Logf("result=%v commits=%d rollbacks=%d laterStepRan=%v", res, commits, rollbacks, ran2)
	if commits != 0 || rollbacks != 1 || res == nil {
		t.Fatalf("a panicking step must roll the transaction back and report an error: result=%v commits=%d rollbacks=%d", res, commits, rollbacks)
	}
}
