package vcode

// Demonstration of the C19 key defect on the real code: a code that was just sent can never be verified,
// because SendSMSCode stores it under "area-phone" and VerifySMSCode looks it up under "areaphone".
import (
	"testing"
	"time"

	"github.com/pinealctx/neptune/tex"
)

func TestZZDemoSentCodeVerifies(t *testing.T) {
	cfg := &Config{CacheSize: 16, Mock: true, CodeLen: 4, TTL: tex.Duration(time.Hour), MinInterval: 0,
		CounterDuration: tex.Duration(time.Hour), MaxCount: 5, MaxVerifyCount: 5}
	l := NewSimpleLogic(cfg, nil, nil)
	hash, err := l.SendSMSCode("86", "13800001234")
	if err != nil {
		t.Fatal(err)
	}
	if err := l.VerifySMSCode("86", "13800001234", "1234", hash); err != nil {
		t.Fatalf("verifying the code that was just sent (mock mode: last 4 digits) failed: %v", err)
	}
}
