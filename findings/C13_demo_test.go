package syncq

// Demonstration of the C13 defect on the real code: Close wakes only one of several blocked consumers.
import (
	"testing"
	"time"
)

func TestZZDemoCloseWakesAll(t *testing.T) {
	q := NewSyncQueue()
	done := make(chan int, 2)
	for i := 0; i < 2; i++ {
		go func(i int) { q.Pop(); done <- i }(i)
	}
	time.Sleep(200 * time.Millisecond) // let both consumers park in Pop
	q.Close()
	got := 0
	timeout := time.After(2 * time.Second)
	for got < 2 {
		select {
		case <-done:
			got++
		case <-timeout:
			t.Fatalf("after Close only %d of 2 blocked consumers returned", got)
		}
	}
}
