package tex

// Demonstration of the C11 defect on the real code: WriteRune of a negative rune differs from bytes.Buffer.
import (
	"bytes"
	"testing"
)

func TestZZDemoWriteRuneNegative(t *testing.T) {
	var a Buffer
	var b bytes.Buffer
	na, _ := a.WriteRune(-1)
	nb, _ := b.WriteRune(-1)
	if na != nb || !bytes.Equal(a.Bytes(), b.Bytes()) {
		t.Fatalf("WriteRune(-1): tex.Buffer wrote % x (n=%d), bytes.Buffer wrote % x (n=%d)", a.Bytes(), na, b.Bytes(), nb)
	}
}
