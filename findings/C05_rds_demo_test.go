package cache

// Demonstration of the C05 defect in the redis-backed TTL cache on the real code (no server needed: a go-redis
// process hook records what would be sent). Run: tools/rundemo.sh findings/C05_rds_demo_test.go cache TestZZDemoRds
import (
	"context"
	"fmt"
	"net"
	"testing"

	"github.com/redis/go-redis/v9"
)

type captureHook struct{ sent []string }

func (h *captureHook) DialHook(next redis.DialHook) redis.DialHook {
	return func(ctx context.Context, network, addr string) (net.Conn, error) { return next(ctx, network, addr) }
}
func (h *captureHook) ProcessHook(next redis.ProcessHook) redis.ProcessHook {
	return func(ctx context.Context, cmd redis.Cmder) error {
		h.sent = append(h.sent, fmt.Sprint(cmd.Args()...))
		return nil // nothing goes to the network
	}
}
func (h *captureHook) ProcessPipelineHook(next redis.ProcessPipelineHook) redis.ProcessPipelineHook {
	return next
}

// The in-memory cache counts ttl in seconds (deadline = now().Unix() + ttl). The redis cache passed
// time.Duration(ttl), i.e. ttl NANOseconds: a 10 second entry was sent as "px 1" (1 millisecond).
func TestZZDemoRdsTTLUnit(t *testing.T) {
	var cli = redis.NewClient(&redis.Options{Addr: "127.0.0.1:1"})
	var h = &captureHook{}
	cli.AddHook(h)
	var c = NewTTLRdsCache(cli, "p:", 10)
	_ = c.Set(context.Background(), "k", []byte("v"))
	_ = c.Set(context.Background(), "k", []byte("v"), WithMustNotExist())
	_, _ = c.Get(context.Background(), "k", WithUpdateTTL(30))
	var want = []string{"set p:k [118] ex 10", "set p:k [118] ex 10 nx", "get p:k", "expire p:k 30"}
	for i, w := range want {
		if i >= len(h.sent) {
			t.Fatalf("command %d (%q) was not sent; sent: %q", i, w, h.sent)
		}
		if fmt.Sprint(h.sent[i]) != strip(w) {
			t.Errorf("command %d: sent %q, the same history on the in-memory cache means %q", i, h.sent[i], strip(w))
		}
	}
}

func strip(s string) string {
	var out []byte
	for i := 0; i < len(s); i++ {
		if s[i] != ' ' {
			out = append(out, s[i])
		}
	}
	return string(out)
}
