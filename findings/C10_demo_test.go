package bytex

// Demonstrations of the C10 defects on the real code (run: tools/rundemo.sh findings/C10_demo_test.go bytex).
import (
	"bytes"
	"testing"
	"testing/iotest"
)

// ReaderX.Read did a single reader.Read: a reader that fragments its data made every multi-byte read fail,
// although BufferX decodes the same bytes.
func TestZZDemoFragmentingReader(t *testing.T) {
	var w = NewBufferX()
	w.WriteU32(0x01020304)
	w.WriteString("hello")
	var data = append([]byte{}, w.Bytes()...)
	var r = NewReaderX(iotest.OneByteReader(bytes.NewReader(data)))
	v, err := r.ReadU32()
	if err != nil || v != 0x01020304 {
		t.Fatalf("ReadU32 from a one-byte-at-a-time reader: %x, %v (BufferX decodes 1020304)", v, err)
	}
	s, err := r.ReadString()
	if err != nil || s != "hello" {
		t.Fatalf("ReadString from a one-byte-at-a-time reader: %q, %v", s, err)
	}
}

// ReaderX.ZReadN rejected n == 0, so the empty string written by BufferX.WriteString("") could not be read.
func TestZZDemoEmptyString(t *testing.T) {
	var w = NewBufferX()
	w.WriteString("")
	_ = w.WriteLimitString(8, "")
	var data = append([]byte{}, w.Bytes()...)
	bs, berr := NewReadableBufferX(data).ReadString()
	var r = NewReaderX(bytes.NewReader(data))
	rs, rerr := r.ReadString()
	if berr != nil || rerr != nil || bs != rs {
		t.Fatalf("empty string: BufferX %q,%v  ReaderX %q,%v", bs, berr, rs, rerr)
	}
	if _, err := r.ReadLimitString(8); err != nil {
		t.Fatalf("empty limit string: %v", err)
	}
}

// WriteLimitString compared uint32(len(val)) with the limit: a string of 4 GiB + 5 bytes passed limit 10
// and wrote the length prefix 5 (needs ~9 GiB of memory; skipped with -short).
func TestZZDemoLimitStringWraps(t *testing.T) {
	if testing.Short() {
		t.Skip("allocates 4 GiB")
	}
	var big = string(make([]byte, 1<<32+5))
	var w = NewSizedBufferX(16)
	var err = w.WriteLimitString(10, big)
	if err == nil {
		t.Fatalf("WriteLimitString(limit=10) accepted a string of %d bytes (wrote %d bytes)", len(big), w.Len())
	}
}
