package btree

// BOUNDED stand-in for property C03 (not a proof): exhaustive exploration of the vendored B-tree against a sorted
// set model, injected into /repo/ds/tree/btree with `go test -overlay` by /verif/tools/bounded_c03.py.
// Bounds (also reported in the evidence): keys 0..K-1, every operation sequence of length <= L over
// {insert k, delete k}, degrees 2 and 3; plus every insertion order of 0..P-1 (deeper trees); after every
// sequence: contents, Len, Get/Has, all four scans from every pivot in -1..K with every limit 0..K+1,
// balance invariants, and clone isolation. Items carry a version so "most recently stored item" is observable.

import (
	"encoding/json"
	"fmt"
	"os"
	"sort"
	"testing"
)

type vItem struct{ k, ver int }

func (a vItem) Less(b Item) bool { return a.k < b.(vItem).k }

type model map[int]int // key -> version

func (m model) sorted() []vItem {
	var out []vItem
	for k, v := range m {
		out = append(out, vItem{k, v})
	}
	sort.Slice(out, func(i, j int) bool { return out[i].k < out[j].k })
	return out
}

type c03Stats struct {
	K, L, P    int
	Sequences  int      `json:"sequences"`
	Shapes     int      `json:"distinct_tree_shapes"`
	ScanChecks int      `json:"scan_checks"`
	Failure    string   `json:"failure,omitempty"`
	Samples    []string `json:"samples"`
}

var stats c03Stats
var shapes = map[string]bool{}

func shapeOf(n *node) string {
	if n == nil {
		return "."
	}
	s := "("
	for _, it := range n.items {
		s += fmt.Sprint(it.(vItem).k, ",")
	}
	for _, c := range n.children {
		s += shapeOf(c)
	}
	return s + ")"
}

// balance: every node within its degree bounds, all leaves at one depth
func checkBalance(t *BTree) error {
	if t.root == nil {
		if t.length != 0 {
			return fmt.Errorf("nil root with length %d", t.length)
		}
		return nil
	}
	leafDepth := -1
	count := 0
	var walk func(n *node, depth int, isRoot bool) error
	walk = func(n *node, depth int, isRoot bool) error {
		count += len(n.items)
		// degree bounds of a B-tree of minimum degree d: non-root nodes hold d-1 .. 2d-1 items (stated here, not
		// taken from the code under test)
		if len(n.items) > 2*t.degree-1 {
			return fmt.Errorf("node with %d items > max %d", len(n.items), 2*t.degree-1)
		}
		if !isRoot && len(n.items) < t.degree-1 {
			return fmt.Errorf("non-root node with %d items < min %d", len(n.items), t.degree-1)
		}
		if isRoot && len(n.items) == 0 && len(n.children) > 0 {
			return fmt.Errorf("empty inner root kept")
		}
		if len(n.children) == 0 {
			if leafDepth == -1 {
				leafDepth = depth
			} else if leafDepth != depth {
				return fmt.Errorf("leaves at depths %d and %d", leafDepth, depth)
			}
			return nil
		}
		if len(n.children) != len(n.items)+1 {
			return fmt.Errorf("node with %d items and %d children", len(n.items), len(n.children))
		}
		for _, c := range n.children {
			if err := walk(c, depth+1, false); err != nil {
				return err
			}
		}
		return nil
	}
	if err := walk(t.root, 0, true); err != nil {
		return err
	}
	if count != t.length {
		return fmt.Errorf("Len() = %d but %d items stored", t.length, count)
	}
	return nil
}

func collect(f func(ItemIterator), limit int, filter func(vItem) bool) []vItem {
	var out []vItem
	if limit == 0 {
		return out
	}
	f(func(i Item) bool {
		if len(out) >= limit {
			return false
		}
		if filter(i.(vItem)) {
			out = append(out, i.(vItem))
		}
		return true
	})
	return out
}

func expectScan(all []vItem, pivot int, asc, inclusive bool, limit int, filter func(vItem) bool) []vItem {
	var out []vItem
	if asc {
		for _, it := range all {
			if (it.k > pivot || (inclusive && it.k == pivot)) && filter(it) && len(out) < limit {
				out = append(out, it)
			}
		}
	} else {
		for i := len(all) - 1; i >= 0; i-- {
			it := all[i]
			if (it.k < pivot || (inclusive && it.k == pivot)) && filter(it) && len(out) < limit {
				out = append(out, it)
			}
		}
	}
	return out
}

func eq(a, b []vItem) bool {
	if len(a) != len(b) {
		return false
	}
	for i := range a {
		if a[i] != b[i] {
			return false
		}
	}
	return true
}

func checkTree(t *BTree, m model, K int) error {
	if err := checkBalance(t); err != nil {
		return err
	}
	all := m.sorted()
	if t.Len() != len(all) {
		return fmt.Errorf("Len %d, model %d", t.Len(), len(all))
	}
	for k := -1; k <= K; k++ {
		v, ok := m[k]
		got := t.Get(vItem{k, -1})
		if ok != (got != nil) || t.Has(vItem{k, -1}) != ok {
			return fmt.Errorf("Get/Has(%d): tree %v, model present=%v", k, got, ok)
		}
		if ok && got.(vItem) != (vItem{k, v}) {
			return fmt.Errorf("Get(%d) = %v, most recently stored item is %v", k, got, vItem{k, v})
		}
	}
	filters := []func(vItem) bool{func(vItem) bool { return true }, func(i vItem) bool { return i.k%2 == 0 }}
	for pivot := -1; pivot <= K; pivot++ {
		p := vItem{pivot, -1}
		scans := []struct {
			name      string
			f         func(ItemIterator)
			asc, incl bool
		}{
			{"AscendGreaterOrEqual", func(it ItemIterator) { t.AscendGreaterOrEqual(p, it) }, true, true},
			{"AscendGreater", func(it ItemIterator) { t.AscendGreater(p, it) }, true, false},
			{"DescendLessOrEqual", func(it ItemIterator) { t.DescendLessOrEqual(p, it) }, false, true},
			{"DescendLess", func(it ItemIterator) { t.DescendLess(p, it) }, false, false},
		}
		for _, sc := range scans {
			for fi, flt := range filters {
				for limit := 0; limit <= K+1; limit++ {
					stats.ScanChecks++
					got := collect(sc.f, limit, flt)
					want := expectScan(all, pivot, sc.asc, sc.incl, limit, flt)
					if !eq(got, want) {
						return fmt.Errorf("%s(pivot %d, filter %d, limit %d) = %v, sorted-set model gives %v (contents %v)", sc.name, pivot, fi, limit, got, want, all)
					}
				}
			}
		}
	}
	return nil
}

type op struct {
	ins bool
	k   int
}

func (o op) String() string {
	if o.ins {
		return fmt.Sprintf("insert %d", o.k)
	}
	return fmt.Sprintf("delete %d", o.k)
}

func runSeq(degree int, seq []op, K int) error {
	t := New(degree)
	m := model{}
	ver := 0
	for step, o := range seq {
		// clone isolation: a clone taken before the operation must not see it
		var snap *BTree
		var snapModel model
		if step == len(seq)-1 {
			snap = t.Clone()
			snapModel = model{}
			for k, v := range m {
				snapModel[k] = v
			}
		}
		if o.ins {
			ver++
			old := t.ReplaceOrInsert(vItem{o.k, ver})
			if pv, ok := m[o.k]; ok != (old != nil) || (ok && old.(vItem) != (vItem{o.k, pv})) {
				return fmt.Errorf("step %d %v: returned %v, model had %v/%v", step, o, old, pv, ok)
			}
			m[o.k] = ver
		} else {
			old := t.Delete(vItem{o.k, -1})
			if pv, ok := m[o.k]; ok != (old != nil) || (ok && old.(vItem) != (vItem{o.k, pv})) {
				return fmt.Errorf("step %d %v: returned %v, model had %v/%v", step, o, old, pv, ok)
			}
			delete(m, o.k)
		}
		if snap != nil {
			if err := checkTree(snap, snapModel, K); err != nil {
				return fmt.Errorf("clone taken before step %d %v changed: %v", step, o, err)
			}
			// and a write to the clone must not be visible in the original
			snap.ReplaceOrInsert(vItem{K - 1, 1000})
			snap.Delete(vItem{0, -1})
		}
	}
	shapes[fmt.Sprint(degree)+shapeOf(t.root)] = true
	return checkTree(t, m, K)
}

func TestZZBoundedC03(t *testing.T) {
	K, L, P := 4, 5, 6
	if os.Getenv("C03_THOROUGH") != "" {
		K, L, P = 5, 5, 7
	}
	stats.K, stats.L, stats.P = K, L, P
	fail := func(degree int, seq []op, err error) {
		stats.Failure = fmt.Sprintf("degree %d, sequence %v: %v", degree, seq, err)
	}
	var ops []op
	for k := 0; k < K; k++ {
		ops = append(ops, op{true, k}, op{false, k})
	}
	for _, degree := range []int{2, 3} {
		var rec func(seq []op) bool
		rec = func(seq []op) bool {
			stats.Sequences++
			if err := runSeq(degree, seq, K); err != nil {
				fail(degree, seq, err)
				return false
			}
			if len(stats.Samples) < 3 && len(seq) == L {
				stats.Samples = append(stats.Samples, fmt.Sprintf("degree %d: %v", degree, seq))
			}
			if len(seq) == L {
				return true
			}
			for _, o := range ops {
				if !rec(append(append([]op{}, seq...), o)) {
					return false
				}
			}
			return true
		}
		if !rec(nil) {
			break
		}
		// every insertion order of 0..P-1, then delete the first three inserted (deeper trees, rebalancing)
		perm := make([]int, P)
		for i := range perm {
			perm[i] = i
		}
		var permute func(i int) bool
		permute = func(i int) bool {
			if i == P {
				var seq []op
				for _, k := range perm {
					seq = append(seq, op{true, k})
				}
				for _, k := range perm[:3] {
					seq = append(seq, op{false, k})
				}
				stats.Sequences++
				if err := runSeq(degree, seq, P); err != nil {
					fail(degree, seq, err)
					return false
				}
				// every key re-stored (replaced) in the tree built by this insertion order: the new item must be the
				// one found afterwards, whatever node splits the descent performs; done on a clone, which also must
				// leave the original untouched
				base := New(degree)
				bm := model{}
				for i, k := range perm {
					base.ReplaceOrInsert(vItem{k, i + 1})
					bm[k] = i + 1
				}
				for r := 0; r < P; r++ {
					stats.Sequences++
					c := base.Clone()
					cm := model{}
					for k, v := range bm {
						cm[k] = v
					}
					old := c.ReplaceOrInsert(vItem{r, 1000 + r})
					if old == nil || old.(vItem) != (vItem{r, bm[r]}) {
						fail(degree, append(seq[:P:P], op{true, r}), fmt.Errorf("replace of %d returned %v, stored item was %v", r, old, vItem{r, bm[r]}))
						return false
					}
					cm[r] = 1000 + r
					if err := checkTree(c, cm, P); err != nil {
						fail(degree, append(seq[:P:P], op{true, r}), fmt.Errorf("after replacing %d: %v", r, err))
						return false
					}
				}
				if err := checkTree(base, bm, P); err != nil {
					fail(degree, seq[:P], fmt.Errorf("original changed by writes to its clones: %v", err))
					return false
				}
				return true
			}
			for j := i; j < P; j++ {
				perm[i], perm[j] = perm[j], perm[i]
				if !permute(i + 1) {
					return false
				}
				perm[i], perm[j] = perm[j], perm[i]
			}
			return true
		}
		if stats.Failure == "" && !permute(0) {
			break
		}
	}
	stats.Shapes = len(shapes)
	if out := os.Getenv("C03_STATS"); out != "" {
		b, _ := json.Marshal(stats)
		os.WriteFile(out, b, 0o644)
	}
	if stats.Failure != "" {
		t.Fatalf("C03 bounded check failed: %s", stats.Failure)
	}
}
