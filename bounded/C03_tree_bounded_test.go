package tree

// BOUNDED stand-in for property C03 (not a proof): the locked wrapper ds/tree.BTree against a sorted-set model.
// Every operation sequence of length <= L over {Insert k, Delete k, Update k->k', UpdateOrInsert k->k'} with keys
// 0..K-1; after every sequence Get for every key and all four scans (AscendGte/AscendGt/DescendLte/DescendLt) from
// every pivot -1..K, two filters, every limit 0..K+1. Injected with `go test -overlay` by tools/bounded_c03.py.

import (
	"encoding/json"
	"fmt"
	"os"
	"sort"
	"testing"

	"github.com/pinealctx/neptune/ds/tree/btree"
)

type wItem struct{ k, ver int }

func (a wItem) Less(b btree.Item) bool { return a.k < b.(wItem).k }

type wop struct {
	kind, k, k2 int // 0 insert, 1 delete, 2 update k->k2, 3 update-or-insert k->k2
}

type wstats struct {
	K, L       int
	Sequences  int    `json:"sequences"`
	ScanChecks int    `json:"scan_checks"`
	Failure    string `json:"failure,omitempty"`
}

func TestZZBoundedC03Wrapper(t *testing.T) {
	K, L := 4, 3
	if os.Getenv("C03_THOROUGH") != "" {
		K, L = 4, 4
	}
	var st wstats
	st.K, st.L = K, L
	var ops []wop
	for k := 0; k < K; k++ {
		ops = append(ops, wop{0, k, 0}, wop{1, k, 0})
		for k2 := 0; k2 < K; k2++ {
			ops = append(ops, wop{2, k, k2}, wop{3, k, k2})
		}
	}
	run := func(seq []wop) error {
		b := NewBTree()
		m := map[int]int{}
		ver := 0
		for i, o := range seq {
			ver++
			switch o.kind {
			case 0:
				b.Insert(wItem{o.k, ver})
				m[o.k] = ver
			case 1:
				_, had := m[o.k]
				if got := b.Delete(wItem{o.k, 0}); got != had {
					return fmt.Errorf("step %d Delete(%d) = %v, model had=%v", i, o.k, got, had)
				}
				delete(m, o.k)
			case 2:
				_, had := m[o.k]
				if got := b.Update(wItem{o.k, 0}, wItem{o.k2, ver}); got != had {
					return fmt.Errorf("step %d Update(%d->%d) = %v, model had=%v", i, o.k, o.k2, got, had)
				}
				if had {
					delete(m, o.k)
					m[o.k2] = ver
				}
			case 3:
				_, had := m[o.k]
				if got := b.UpdateOrInsert(wItem{o.k, 0}, wItem{o.k2, ver}); got != had {
					return fmt.Errorf("step %d UpdateOrInsert(%d->%d) = %v, model had=%v", i, o.k, o.k2, got, had)
				}
				delete(m, o.k)
				m[o.k2] = ver
			}
		}
		var all []wItem
		for k, v := range m {
			all = append(all, wItem{k, v})
		}
		sort.Slice(all, func(i, j int) bool { return all[i].k < all[j].k })
		for k := -1; k <= K; k++ {
			v, ok := m[k]
			got := b.Get(wItem{k, 0})
			if ok != (got != nil) || (ok && got.(wItem) != wItem{k, v}) {
				return fmt.Errorf("Get(%d) = %v, model %v/%v", k, got, v, ok)
			}
		}
		filters := []FilterFn{func(Node) bool { return true }, func(n Node) bool { return n.(wItem).k%2 == 1 }}
		for pivot := -1; pivot <= K; pivot++ {
			for fi, flt := range filters {
				for limit := 0; limit <= K+1; limit++ {
					for kind := 0; kind < 4; kind++ {
						st.ScanChecks++
						var got []Node
						asc, incl := kind < 2, kind%2 == 0
						switch kind {
						case 0:
							got = b.AscendGte(wItem{pivot, 0}, flt, limit)
						case 1:
							got = b.AscendGt(wItem{pivot, 0}, flt, limit)
						case 2:
							got = b.DescendLte(wItem{pivot, 0}, flt, limit)
						case 3:
							got = b.DescendLt(wItem{pivot, 0}, flt, limit)
						}
						var want []wItem
						pick := func(it wItem) {
							in := (asc && it.k > pivot) || (!asc && it.k < pivot) || (incl && it.k == pivot)
							if in && flt(it) && len(want) < limit {
								want = append(want, it)
							}
						}
						if asc {
							for _, it := range all {
								pick(it)
							}
						} else {
							for i := len(all) - 1; i >= 0; i-- {
								pick(all[i])
							}
						}
						if len(got) != len(want) {
							return fmt.Errorf("scan kind %d pivot %d filter %d limit %d = %v, model %v (contents %v)", kind, pivot, fi, limit, got, want, all)
						}
						for i := range got {
							if got[i].(wItem) != want[i] {
								return fmt.Errorf("scan kind %d pivot %d filter %d limit %d = %v, model %v (contents %v)", kind, pivot, fi, limit, got, want, all)
							}
						}
					}
				}
			}
		}
		return nil
	}
	var rec func(seq []wop) bool
	rec = func(seq []wop) bool {
		st.Sequences++
		if err := run(seq); err != nil {
			st.Failure = fmt.Sprintf("sequence %v: %v", seq, err)
			return false
		}
		if len(seq) == L {
			return true
		}
		for _, o := range ops {
			if !rec(append(append([]wop{}, seq...), o)) {
				return false
			}
		}
		return true
	}
	rec(nil)
	if out := os.Getenv("C03_STATS_W"); out != "" {
		b, _ := json.Marshal(st)
		os.WriteFile(out, b, 0o644)
	}
	if st.Failure != "" {
		t.Fatalf("C03 bounded wrapper check failed: %s", st.Failure)
	}
}
