package main

// Spec expression language: a Go-like expression grammar extended with
//   forall x T, y U :: e     exists x T :: e     a ==> b     a <==> b
//   old(e)   result   ite(c,a,b)
// Parsed into a small AST of its own; typing happens at evaluation time
// (speceval.go) against go/types objects of the function under contract.

import (
	"fmt"
	"strings"
	"unicode"
)

type SKind int

const (
	SIdent SKind = iota
	SInt
	SStr
	SUnary
	SBinary
	SIndex
	SSlice
	SField
	SCall
	SQuant
	SOld
)

type SExpr struct {
	Kind SKind
	Name string   // ident name, field name, operator, int literal text, quantifier kind
	Args []*SExpr // operands / call args (Args[0] is callee for SCall? no: Fun)
	Fun  *SExpr   // callee for SCall
	// quantifier
	Vars  []SVar
	Trigs [][]*SExpr
	Pos   int
}

type SVar struct {
	Name string
	Type string // textual Go type, e.g. "int", "*Weighted", "[]byte"
}

func (e *SExpr) String() string {
	switch e.Kind {
	case SIdent, SInt:
		return e.Name
	case SStr:
		return fmt.Sprintf("%q", e.Name)
	case SUnary:
		return e.Name + e.Args[0].String()
	case SBinary:
		return "(" + e.Args[0].String() + " " + e.Name + " " + e.Args[1].String() + ")"
	case SIndex:
		return e.Args[0].String() + "[" + e.Args[1].String() + "]"
	case SSlice:
		s := e.Args[0].String() + "["
		if e.Args[1] != nil {
			s += e.Args[1].String()
		}
		s += ":"
		if e.Args[2] != nil {
			s += e.Args[2].String()
		}
		return s + "]"
	case SField:
		return e.Args[0].String() + "." + e.Name
	case SCall:
		var as []string
		for _, a := range e.Args {
			as = append(as, a.String())
		}
		return e.Fun.String() + "(" + strings.Join(as, ", ") + ")"
	case SQuant:
		var vs []string
		for _, v := range e.Vars {
			vs = append(vs, v.Name+" "+v.Type)
		}
		return "(" + e.Name + " " + strings.Join(vs, ", ") + " :: " + e.Args[0].String() + ")"
	case SOld:
		return "old(" + e.Args[0].String() + ")"
	}
	return "?"
}

type stok struct {
	kind string // "id", "int", "str", "op", "eof"
	text string
	pos  int
}

func slex(src string) ([]stok, error) {
	var toks []stok
	i := 0
	ops3 := []string{"<==>", "==>", "&^", "<<", ">>", "&&", "||", "==", "!=", "<=", ">=", "::", ".."}
	for i < len(src) {
		c := src[i]
		if c == ' ' || c == '\t' || c == '\n' || c == '\r' {
			i++
			continue
		}
		if c == '"' {
			j := i + 1
			var sb strings.Builder
			for j < len(src) && src[j] != '"' {
				if src[j] == '\\' && j+1 < len(src) {
					j++
					switch src[j] {
					case 'n':
						sb.WriteByte('\n')
					case 't':
						sb.WriteByte('\t')
					default:
						sb.WriteByte(src[j])
					}
				} else {
					sb.WriteByte(src[j])
				}
				j++
			}
			if j >= len(src) {
				return nil, fmt.Errorf("unterminated string at %d", i)
			}
			toks = append(toks, stok{"str", sb.String(), i})
			i = j + 1
			continue
		}
		if unicode.IsLetter(rune(c)) || c == '_' || c == '$' {
			j := i
			for j < len(src) && (unicode.IsLetter(rune(src[j])) || unicode.IsDigit(rune(src[j])) || src[j] == '_' || src[j] == '$') {
				j++
			}
			toks = append(toks, stok{"id", src[i:j], i})
			i = j
			continue
		}
		if unicode.IsDigit(rune(c)) {
			j := i
			for j < len(src) && (unicode.IsDigit(rune(src[j])) || unicode.IsLetter(rune(src[j])) || src[j] == '_') {
				j++
			}
			toks = append(toks, stok{"int", strings.ReplaceAll(src[i:j], "_", ""), i})
			i = j
			continue
		}
		matched := false
		for _, op := range ops3 {
			if strings.HasPrefix(src[i:], op) {
				toks = append(toks, stok{"op", op, i})
				i += len(op)
				matched = true
				break
			}
		}
		if matched {
			continue
		}
		if strings.ContainsRune("+-*/%&|^!<>()[]{}.,:?=", rune(c)) {
			toks = append(toks, stok{"op", string(c), i})
			i++
			continue
		}
		return nil, fmt.Errorf("bad character %q at %d in %q", c, i, src)
	}
	toks = append(toks, stok{"eof", "", len(src)})
	return toks, nil
}

type sparser struct {
	toks []stok
	p    int
	src  string
}

func ParseSpec(src string) (e *SExpr, err error) {
	toks, err := slex(src)
	if err != nil {
		return nil, err
	}
	ps := &sparser{toks: toks, src: src}
	defer func() {
		if r := recover(); r != nil {
			if pe, ok := r.(specParseErr); ok {
				err = fmt.Errorf("%s (in %q)", string(pe), src)
				return
			}
			panic(r)
		}
	}()
	e = ps.expr()
	if ps.peek().kind != "eof" {
		ps.fail("unexpected %q", ps.peek().text)
	}
	return e, nil
}

type specParseErr string

func (ps *sparser) fail(f string, a ...interface{}) {
	panic(specParseErr(fmt.Sprintf("spec parse error at %d: ", ps.peek().pos) + fmt.Sprintf(f, a...)))
}
func (ps *sparser) peek() stok { return ps.toks[ps.p] }
func (ps *sparser) next() stok { t := ps.toks[ps.p]; ps.p++; return t }
func (ps *sparser) isOp(s string) bool {
	t := ps.peek()
	return t.kind == "op" && t.text == s
}
func (ps *sparser) accept(s string) bool {
	if ps.isOp(s) {
		ps.p++
		return true
	}
	return false
}
func (ps *sparser) expect(s string) {
	if !ps.accept(s) {
		ps.fail("expected %q, got %q", s, ps.peek().text)
	}
}

func (ps *sparser) expr() *SExpr {
	t := ps.peek()
	if t.kind == "id" && (t.text == "forall" || t.text == "exists") {
		ps.next()
		q := &SExpr{Kind: SQuant, Name: t.text, Pos: t.pos}
		for {
			n := ps.next()
			if n.kind != "id" {
				ps.fail("quantifier variable expected")
			}
			ty := ps.typeText()
			q.Vars = append(q.Vars, SVar{n.text, ty})
			if !ps.accept(",") {
				break
			}
		}
		ps.expect("::")
		for ps.isOp("{") { // triggers { e1, e2 }
			ps.next()
			var tr []*SExpr
			for {
				tr = append(tr, ps.expr())
				if !ps.accept(",") {
					break
				}
			}
			ps.expect("}")
			q.Trigs = append(q.Trigs, tr)
		}
		q.Args = []*SExpr{ps.expr()}
		return q
	}
	return ps.impl()
}

// typeText parses a type and returns its text: [*|[]]* ident[.ident]
func (ps *sparser) typeText() string {
	var sb strings.Builder
	for {
		if ps.accept("*") {
			sb.WriteString("*")
		} else if ps.isOp("[") {
			ps.next()
			if ps.peek().kind == "int" {
				sb.WriteString("[" + ps.next().text + "]")
				ps.expect("]")
			} else {
				ps.expect("]")
				sb.WriteString("[]")
			}
		} else {
			break
		}
	}
	n := ps.next()
	if n.kind != "id" {
		ps.fail("type name expected, got %q", n.text)
	}
	sb.WriteString(n.text)
	if n.text == "interface" && ps.accept("{") {
		ps.expect("}")
		sb.WriteString("{}")
		return sb.String()
	}
	if ps.isOp(".") && ps.toks[ps.p+1].kind == "id" {
		ps.next()
		sb.WriteString("." + ps.next().text)
	}
	return sb.String()
}

func (ps *sparser) impl() *SExpr {
	l := ps.or()
	if ps.isOp("==>") {
		t := ps.next()
		// right associative; the right side may be a quantifier
		r := ps.implRHS()
		return &SExpr{Kind: SBinary, Name: "==>", Args: []*SExpr{l, r}, Pos: t.pos}
	}
	if ps.isOp("<==>") {
		t := ps.next()
		r := ps.or()
		return &SExpr{Kind: SBinary, Name: "<==>", Args: []*SExpr{l, r}, Pos: t.pos}
	}
	return l
}

func (ps *sparser) implRHS() *SExpr {
	t := ps.peek()
	if t.kind == "id" && (t.text == "forall" || t.text == "exists") {
		return ps.expr()
	}
	return ps.impl()
}

func (ps *sparser) binLevel(next func() *SExpr, ops ...string) *SExpr {
	l := next()
	for {
		found := false
		for _, op := range ops {
			if ps.isOp(op) {
				t := ps.next()
				r := next()
				l = &SExpr{Kind: SBinary, Name: op, Args: []*SExpr{l, r}, Pos: t.pos}
				found = true
				break
			}
		}
		if !found {
			return l
		}
	}
}

func (ps *sparser) or() *SExpr  { return ps.binLevel(ps.and, "||") }
func (ps *sparser) and() *SExpr { return ps.binLevel(ps.cmp, "&&") }
func (ps *sparser) cmp() *SExpr {
	l := ps.add()
	for _, op := range []string{"==", "!=", "<=", ">=", "<", ">"} {
		if ps.isOp(op) {
			t := ps.next()
			r := ps.add()
			return &SExpr{Kind: SBinary, Name: op, Args: []*SExpr{l, r}, Pos: t.pos}
		}
	}
	return l
}
func (ps *sparser) add() *SExpr { return ps.binLevel(ps.mul, "+", "-", "|", "^") }
func (ps *sparser) mul() *SExpr { return ps.binLevel(ps.unary, "*", "/", "%", "<<", ">>", "&^", "&") }
func (ps *sparser) unary() *SExpr {
	for _, op := range []string{"!", "-", "^"} {
		if ps.isOp(op) {
			t := ps.next()
			x := ps.unary()
			return &SExpr{Kind: SUnary, Name: op, Args: []*SExpr{x}, Pos: t.pos}
		}
	}
	return ps.postfix()
}

func (ps *sparser) postfix() *SExpr {
	e := ps.primary()
	for {
		switch {
		case ps.isOp(".") && ps.toks[ps.p+1].kind == "id":
			t := ps.next()
			n := ps.next()
			e = &SExpr{Kind: SField, Name: n.text, Args: []*SExpr{e}, Pos: t.pos}
		case ps.isOp("["):
			t := ps.next()
			var lo, hi *SExpr
			if !ps.isOp(":") {
				lo = ps.expr()
			}
			if ps.accept(":") {
				if !ps.isOp("]") {
					hi = ps.expr()
				}
				ps.expect("]")
				e = &SExpr{Kind: SSlice, Args: []*SExpr{e, lo, hi}, Pos: t.pos}
			} else {
				ps.expect("]")
				e = &SExpr{Kind: SIndex, Args: []*SExpr{e, lo}, Pos: t.pos}
			}
		case ps.isOp("("):
			t := ps.next()
			var args []*SExpr
			if !ps.isOp(")") {
				for {
					args = append(args, ps.expr())
					if !ps.accept(",") {
						break
					}
				}
			}
			ps.expect(")")
			if e.Kind == SIdent && e.Name == "old" {
				if len(args) != 1 {
					ps.fail("old takes one argument")
				}
				e = &SExpr{Kind: SOld, Args: args, Pos: t.pos}
			} else {
				e = &SExpr{Kind: SCall, Fun: e, Args: args, Pos: t.pos}
			}
		default:
			return e
		}
	}
}

func (ps *sparser) primary() *SExpr {
	t := ps.next()
	switch t.kind {
	case "id":
		if (t.text == "forall" || t.text == "exists") && ps.peek().kind == "id" {
			ps.p--
			return ps.expr()
		}
		return &SExpr{Kind: SIdent, Name: t.text, Pos: t.pos}
	case "int":
		return &SExpr{Kind: SInt, Name: t.text, Pos: t.pos}
	case "str":
		return &SExpr{Kind: SStr, Name: t.text, Pos: t.pos}
	case "op":
		if t.text == "(" {
			// parenthesised type for conversion, e.g. (*T)(x): not supported; plain parens
			e := ps.expr()
			ps.expect(")")
			return e
		}
		if t.text == "[" || t.text == "*" {
			// type conversion like []byte(x) or *T: reparse as type
			ps.p--
			ty := ps.typeText()
			return &SExpr{Kind: SIdent, Name: ty, Pos: t.pos}
		}
	}
	ps.fail("unexpected token %q", t.text)
	return nil
}
