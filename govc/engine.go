package main

import (
	"fmt"
	"go/ast"
	"go/constant"
	"go/token"
	"go/types"
	"os"
	"path/filepath"
	"sort"
	"strings"

	"golang.org/x/tools/go/packages"
)

func constantInt(i int64) constant.Value { return constant.MakeInt64(i) }

type Engine struct {
	repo      string
	verif     string
	modPath   string
	fset      *token.FileSet
	pkgs      map[string]*packages.Package
	typesPkgs map[string]*types.Package
	csByPkg   map[string]*ContractSet
	csPkg     map[*ContractSet]*types.Package
	externs   *ContractSet
	slicedArr map[string]map[types.Object]bool
	hasSend   map[string]bool
	sentOn    map[string]map[string]bool
	closures  map[string]*closure
	typeCache map[string]types.Type
	regionSorts map[string]string
	roots     []*packages.Package
}

func NewEngine(repo, verif string) *Engine {
	return &Engine{repo: repo, verif: verif, modPath: "github.com/pinealctx/neptune", pkgs: map[string]*packages.Package{},
		typesPkgs: map[string]*types.Package{}, csByPkg: map[string]*ContractSet{}, csPkg: map[*ContractSet]*types.Package{},
		slicedArr: map[string]map[types.Object]bool{}, hasSend: map[string]bool{}, sentOn: map[string]map[string]bool{}, closures: map[string]*closure{}, typeCache: map[string]types.Type{}, regionSorts: map[string]string{}}
}

func (eng *Engine) Load(patterns ...string) error {
	eng.fset = token.NewFileSet()
	cfg := &packages.Config{
		Mode: packages.NeedName | packages.NeedSyntax | packages.NeedTypes | packages.NeedTypesInfo | packages.NeedImports | packages.NeedDeps | packages.NeedFiles,
		Dir:  eng.repo, Fset: eng.fset, BuildFlags: []string{"-tags=verif", "-mod=mod"},
		Env: append(os.Environ(), "GOFLAGS=-mod=mod", "GOPROXY=off", "GOSUMDB=off", "GOTOOLCHAIN=local"),
	}
	pkgs, err := packages.Load(cfg, patterns...)
	if err != nil {
		return err
	}
	var errs []string
	packages.Visit(pkgs, nil, func(p *packages.Package) {
		eng.pkgs[p.PkgPath] = p
		if p.Types != nil {
			eng.typesPkgs[p.PkgPath] = p.Types
		}
		if strings.HasPrefix(p.PkgPath, eng.modPath) {
			for _, e := range p.Errors {
				errs = append(errs, e.Error())
			}
		}
	})
	if len(errs) > 0 {
		return fmt.Errorf("package errors (the tree does not compile): %s", strings.Join(errs, "; "))
	}
	eng.roots = pkgs
	// extern specs
	eng.externs = NewContractSet()
	files, _ := filepath.Glob(filepath.Join(eng.verif, "extern", "*.spec"))
	sort.Strings(files)
	for _, f := range files {
		if err := eng.externs.Load(f, false); err != nil {
			return err
		}
	}
	for _, c := range eng.externs.Funcs {
		c.Extern = true
	}
	return nil
}

func (eng *Engine) pkgDir(path string) string {
	return filepath.Join(eng.repo, strings.TrimPrefix(strings.TrimPrefix(path, eng.modPath), "/"))
}

func (eng *Engine) contractsForPkg(p *types.Package) *ContractSet {
	if p == nil || !strings.HasPrefix(p.Path(), eng.modPath) {
		return nil
	}
	if cs, ok := eng.csByPkg[p.Path()]; ok {
		return cs
	}
	cs := NewContractSet()
	cs.Arith = "bv"
	files, _ := filepath.Glob(filepath.Join(eng.pkgDir(p.Path()), "*_verif.go"))
	sort.Strings(files)
	for _, f := range files {
		if err := cs.Load(f, true); err != nil {
			panic(vcError{err.Error()})
		}
	}
	eng.csByPkg[p.Path()] = cs
	eng.csPkg[cs] = p
	return cs
}

func (eng *Engine) pkgOfContractSet(cs *ContractSet) *types.Package {
	return eng.csPkg[cs]
}

func (eng *Engine) lookupContract(callee *types.Func) (*Contract, *ContractSet, *types.Package, string) {
	pkgPath, key := funcKey(callee)
	if strings.HasPrefix(pkgPath, eng.modPath) {
		cs := eng.contractsForPkg(callee.Pkg())
		if c, ok := cs.Funcs[key]; ok {
			return c, cs, callee.Pkg(), pkgPath + "." + key
		}
	}
	full := pkgPath + "." + key
	if c, ok := eng.externs.Funcs[full]; ok {
		return c, eng.externs, callee.Pkg(), full
	}
	return nil, nil, callee.Pkg(), full
}

// effect-free allow-list: calls that are modelled as returning arbitrary values and changing nothing.
var effectFreePkgs = []string{"go.uber.org/zap", "github.com/pinealctx/neptune/ulog", "google.golang.org/grpc/codes"}
var effectFreeFuncs = map[string]bool{
	"fmt.Sprintf": true, "fmt.Sprint": true, "reflect.TypeOf": true,
	"strconv.FormatInt": true, "strconv.FormatUint": true, "strconv.Itoa": true,
}

func (eng *Engine) effectFree(callee *types.Func) bool {
	if callee.Pkg() == nil {
		return callee.FullName() == "(error).Error"
	}
	for _, p := range effectFreePkgs {
		if strings.HasPrefix(callee.Pkg().Path(), p) {
			return true
		}
	}
	return effectFreeFuncs[callee.FullName()]
}

func (eng *Engine) declOf(pkg *packages.Package, fn *types.Func) *ast.FuncDecl {
	fn = fn.Origin()
	for _, f := range pkg.Syntax {
		for _, d := range f.Decls {
			if fd, ok := d.(*ast.FuncDecl); ok {
				if pkg.TypesInfo.Defs[fd.Name] == fn {
					return fd
				}
			}
		}
	}
	return nil
}

// FuncDecls returns the declarations of a package keyed by contract key.
func (eng *Engine) FuncDecls(pkg *packages.Package) map[string]*ast.FuncDecl {
	out := map[string]*ast.FuncDecl{}
	for _, f := range pkg.Syntax {
		for _, d := range f.Decls {
			if fd, ok := d.(*ast.FuncDecl); ok && fd.Body != nil {
				out[declKey(fd)] = fd
			}
		}
	}
	return out
}
