package main

// Engine-modelled externs: sync.Mutex / RWMutex (monitor rule), sync.Once, sync.Cond ghost counters,
// guarded-field obligations and frame obligations.

import (
	"fmt"
	"go/ast"
	"go/token"
	"go/types"
	"math/big"
	"strings"
)

func maxInt63() *big.Int {
	return new(big.Int).Sub(new(big.Int).Lsh(big.NewInt(1), 63), big.NewInt(1))
}

type monInfo struct {
	owner types.Type
	field string
	base  Val
	mon   *Monitor
	cs    *ContractSet
}

const heldSort = "(Array Int Int)"

// lockTarget determines, from the syntax of a Lock/Unlock call, which struct owns the mutex.
func (fc *FnCtx) lockTarget(st *State, call *ast.CallExpr) *monInfo {
	sel, ok := ast.Unparen(call.Fun).(*ast.SelectorExpr)
	if !ok {
		return nil
	}
	s, ok := fc.info().Selections[sel]
	if !ok {
		return nil
	}
	var ownerExpr ast.Expr
	var fieldIdx int
	path := s.Index()
	if id, ok := ast.Unparen(sel.X).(*ast.Ident); ok && fc.contract != nil && fc.contract.LockIs != nil && fc.inlineOld == nil {
		// `lockis mu X.f`: the mutex parameter mu is the mutex field f of X (an obligation at every call site,
		// stated as the precondition mu == X.f which the contract must contain)
		if e, ok := fc.contract.LockIs[id.Name]; ok {
			env := fc.newSpecEnv(st, fc.oldState(), fc.decl.Body.Rbrace)
			fc.bindParamsOld(env)
			base := env.eval(e.Args[0])
			sT, owner, isPtr := structOf(base.Ty)
			if sT == nil || !isPtr {
				fc.fail(call.Pos(), "lockis: %s is not a pointer to struct", e.Args[0].Name)
			}
			mi := &monInfo{owner: owner, field: e.Name, base: base}
			if n, ok := owner.(*types.Named); ok {
				if cs := fc.eng.contractsForPkg(n.Obj().Pkg()); cs != nil {
					mi.cs = cs
					for _, m := range cs.Monitors {
						if m.Type == n.Obj().Name() && m.MuField == mi.field {
							mi.mon = m
						}
					}
				}
			}
			return mi
		}
	}
	if len(path) == 2 {
		ownerExpr, fieldIdx = sel.X, path[0]
	} else if len(path) == 1 {
		inner, ok := ast.Unparen(sel.X).(*ast.SelectorExpr)
		if !ok {
			return nil
		}
		is, ok := fc.info().Selections[inner]
		if !ok || is.Kind() != types.FieldVal || len(is.Index()) != 1 {
			return nil
		}
		ownerExpr, fieldIdx = inner.X, is.Index()[0]
	} else {
		return nil
	}
	base := fc.eval1(st, ownerExpr)
	sT, owner, isPtr := structOf(base.Ty)
	if sT == nil || !isPtr {
		return nil
	}
	mi := &monInfo{owner: owner, field: sT.Field(fieldIdx).Name(), base: base}
	if n, ok := owner.(*types.Named); ok {
		cs := fc.eng.contractsForPkg(n.Obj().Pkg())
		if cs != nil {
			mi.cs = cs
			for _, m := range cs.Monitors {
				if m.Type == n.Obj().Name() && m.MuField == mi.field {
					mi.mon = m
				}
			}
		}
	}
	return mi
}

func (fc *FnCtx) guardedFieldsOf(mi *monInfo) []Guarded {
	var out []Guarded
	n, ok := mi.owner.(*types.Named)
	if !ok || mi.cs == nil {
		return nil
	}
	for _, g := range mi.cs.Guarded {
		if g.MuType == n.Obj().Name() && g.MuField == mi.field {
			out = append(out, g)
		}
	}
	return out
}

func (fc *FnCtx) monitorEnv(st *State, mi *monInfo) *SpecEnv {
	n := mi.owner.(*types.Named)
	env := &SpecEnv{fc: fc, cur: st, old: fc.entry, bound: map[string]Val{"self": mi.base}, home: mi.cs, homePkg: n.Obj().Pkg()}
	return env
}

// acquire: havoc the guarded state of this object and assume the monitor invariant.
func (fc *FnCtx) acquire(st *State, mi *monInfo) {
	fc.acquireHavoc(st, mi, true)
}

// acquireHavoc: what other goroutines may have changed while the monitor's mutex was not held (guarded fields, the
// condition variables' ghost counters, the monitor's havoc list). With assumeInv the monitor invariant is assumed for
// the new state (right after Lock / Wait's re-acquisition); without it only the havoc is performed (loop heads).
func (fc *FnCtx) acquireHavoc(st *State, mi *monInfo, assumeInv bool) {
	if mi == nil {
		return
	}
	for _, g := range fc.guardedFieldsOf(mi) {
		ot := fc.resolveType(g.Type, mi.owner.(*types.Named).Obj().Pkg())
		_, ft := fc.fieldOwner(ot, g.Field, fc.monitorEnv(st, mi))
		sort := fmt.Sprintf("(Array Int %s)", fc.sortOf(ft))
		key := fc.fieldKey(ot, g.Field)
		if ot == mi.owner || types.Identical(ot, mi.owner) {
			fc.havocRegion(st, region{key: key, sort: sort, base: mi.base.T})
			nv := app("select", fc.heapGet(st, key, sort), mi.base.T)
			fc.assume(st, fc.rangeFact(nv, ft))
			fc.assume(st, fc.wellFormed(nv, ft))
		} else {
			fc.havocRegion(st, region{key: key, sort: sort})
		}
	}
	for _, c := range fc.condsOf(mi) {
		cref := fc.condRef(st, mi, c)
		for _, key := range []string{"$condsleep", "$condwoken"} {
			fc.havocRegion(st, region{key: key, sort: "(Array Int Int)", base: cref})
		}
	}
	if mi.mon != nil {
		env := fc.monitorEnv(st, mi)
		for _, h := range mi.mon.Havoc {
			c, err := mkClause(h, "monitor", 0)
			if err != nil {
				fc.fail(token.NoPos, "%v", err)
			}
			for _, r := range fc.regionsOf(c, env) {
				fc.havocRegion(st, r)
			}
		}
		if !assumeInv {
			return
		}
		env = fc.monitorEnv(st, mi)
		for _, inv := range mi.mon.Inv {
			fc.assume(st, env.evalBool(inv.E))
		}
		for _, a := range mi.mon.Assume {
			fc.assume(st, env.evalBool(a.E))
		}
	}
}

func (fc *FnCtx) release(st *State, mi *monInfo, pos token.Pos) {
	if mi == nil || mi.mon == nil {
		return
	}
	env := fc.monitorEnv(st, mi)
	for i, inv := range mi.mon.Inv {
		label := inv.Label
		if label == "" {
			label = fmt.Sprint(i + 1)
		}
		fc.assertNamed(st, env.evalBool(inv.E), "monitor", label, "monitor invariant at release: "+inv.Text, pos)
	}
}

func (fc *FnCtx) heldGet(st *State, addr string) string {
	return app("select", fc.heapGet(st, "$held", heldSort), addr)
}
func (fc *FnCtx) heldSet(st *State, addr, v string) {
	if fc.touchedMu == nil {
		fc.touchedMu = map[string]bool{}
	}
	fc.touchedMu[addr] = true
	fc.heapSet(st, "$held", heldSort, app("store", fc.heapGet(st, "$held", heldSort), addr, v))
}

// builtinExtern handles callees whose semantics are built into the engine (the trusted sync model).
func (fc *FnCtx) builtinExtern(st *State, callee *types.Func, recv *Val, args []Val, call *ast.CallExpr) ([]Val, bool) {
	full := callee.FullName()
	switch full {
	case "(*sync.Mutex).Lock", "(*sync.RWMutex).Lock", "(*sync.RWMutex).RLock", "(sync.Locker).Lock":
		fc.externsUsed["sync mutex model (Go memory model: Lock/Unlock exclusion, trusted)"] = true
		mi := fc.lockTarget(st, call)
		addr := recv.T
		mode := "1"
		if strings.HasSuffix(full, "RLock") {
			mode = "2"
		}
		if mi != nil && mi.mon != nil {
			fc.assert(st, app("=", fc.heldGet(st, addr), "0"), "lock", "mutex not already held by this goroutine (self-deadlock)", call.Pos())
		}
		fc.checkBlocking(st, mi, call)
		fc.heldSet(st, addr, mode)
		fc.bumpCounter(st, "$lockcalls")
		fc.acquire(st, mi)
		if fc.contract != nil && len(fc.contract.AtLock) > 0 && fc.inlineOld == nil && mi != nil && mi.mon != nil {
			env := fc.newSpecEnv(st, fc.oldState(), fc.decl.Body.Rbrace)
			fc.bindParamsOld(env)
			for _, c := range fc.contract.AtLock {
				fc.assume(st, env.evalBool(c.E))
				fc.externsUsed["assumed at Lock in "+fc.fn.Name()+" (the caller's own earlier operations guarantee it): "+c.Text] = true
			}
		}
		st.csSnap = nil
		st.csSnap = st.clone()
		if mode == "2" && mi != nil {
			st.rsnap = copySnap(st.rsnap)
			st.rsnap[addr] = st.clone()
		}
		return nil, true
	case "(*sync.Mutex).Unlock", "(*sync.RWMutex).Unlock", "(*sync.RWMutex).RUnlock", "(sync.Locker).Unlock":
		mi := fc.lockTarget(st, call)
		return fc.doUnlock(st, full, recv.T, mi, call.Pos()), true
	case "(*sync.Cond).Wait":
		fc.externsUsed["sync.Cond model: ghost counters sleepers/woken; Wait = sleepers++, release, re-acquire after a signal (woken > 0), woken-- (trusted)"] = true
		mi, _ := fc.condOwner(st, recv, call)
		if mi == nil {
			fc.fail(call.Pos(), "Cond.Wait: no `cond T.f uses T.mu` declaration matches (outside subset)")
		}
		muIdx := fieldIndex(mi.owner, mi.field)
		addr := fc.fieldAddr(st, mi.base, muIdx, call.Pos()).T
		fc.assert(st, app("=", fc.heldGet(st, addr), "1"), "lock-held", "Cond.Wait is called with its mutex held", call.Pos())
		c := recv.T
		S := fc.heapGet(st, "$condsleep", "(Array Int Int)")
		fc.heapSet(st, "$condsleep", "(Array Int Int)", app("store", S, c, app("+", app("select", S, c), "1")))
		fc.release(st, mi, call.Pos())
		fc.acquire(st, mi)
		W := fc.heapGet(st, "$condwoken", "(Array Int Int)")
		fc.assume(st, app(">", app("select", W, c), "0")) // Wait only returns after a Signal/Broadcast reached this waiter
		fc.heapSet(st, "$condwoken", "(Array Int Int)", app("store", W, c, app("-", app("select", W, c), "1")))
		st.csSnap = nil
		st.csSnap = st.clone()
		return nil, true
	case "(*sync.Cond).Signal", "(*sync.Cond).Broadcast":
		fc.externsUsed["sync.Cond model: Signal moves one sleeper to woken, Broadcast moves all (trusted)"] = true
		if mi, _ := fc.condOwner(st, recv, call); mi != nil {
			muIdx := fieldIndex(mi.owner, mi.field)
			addr := fc.fieldAddr(st, mi.base, muIdx, call.Pos()).T
			fc.assert(st, app("=", fc.heldGet(st, addr), "1"), "lock-held", "Signal/Broadcast happens with the monitor's mutex held (required for the ghost-counter argument)", call.Pos())
		}
		c := recv.T
		S := fc.heapGet(st, "$condsleep", "(Array Int Int)")
		W := fc.heapGet(st, "$condwoken", "(Array Int Int)")
		s0, w0 := app("select", S, c), app("select", W, c)
		if full == "(*sync.Cond).Signal" {
			some := app(">", s0, "0")
			fc.heapSet(st, "$condsleep", "(Array Int Int)", app("store", S, c, ite(some, app("-", s0, "1"), s0)))
			fc.heapSet(st, "$condwoken", "(Array Int Int)", app("store", W, c, ite(some, app("+", w0, "1"), w0)))
		} else {
			fc.heapSet(st, "$condsleep", "(Array Int Int)", app("store", S, c, "0"))
			fc.heapSet(st, "$condwoken", "(Array Int Int)", app("store", W, c, app("+", w0, s0)))
		}
		return nil, true
	case "sync.NewCond":
		r := fc.allocRef(st, "cond")
		for _, key := range []string{"$condsleep", "$condwoken"} {
			A := fc.heapGet(st, key, "(Array Int Int)")
			fc.heapSet(st, key, "(Array Int Int)", app("store", A, r, "0"))
		}
		return []Val{{T: r, Ty: callee.Type().(*types.Signature).Results().At(0).Type()}}, true
	case "(*sync.Mutex).TryLock":
		fc.fail(call.Pos(), "TryLock (outside subset)")
	case "(*sync.Once).Do":
		fc.externsUsed["sync.Once model (f runs at most once per Once, trusted)"] = true
		D := fc.heapGet(st, "$oncedone", "(Array Int Bool)")
		done := app("select", D, recv.T)
		fc.heapSet(st, "$oncedone", "(Array Int Bool)", app("store", D, recv.T, "true"))
		run := st.clone()
		run.pc = fc.define("pc", "Bool", and(st.pc, not(done)))
		skip := st.clone()
		skip.pc = fc.define("pc", "Bool", and(st.pc, done))
		fc.runFuncArg(run, call.Args[0], args[0], call)
		m := fc.merge(run, skip)
		*st = *m
		return nil, true
	}
	return nil, false
}

func copySnap(m map[string]*State) map[string]*State {
	n := map[string]*State{}
	for k, v := range m {
		n[k] = v
	}
	return n
}

// bumpCounter: event counters of mutex operations (spec builtins lockcalls() / unlockcalls()): how many Lock/RLock
// resp. Unlock/RUnlock calls the function has executed, whatever mutex they were on.
func (fc *FnCtx) bumpCounter(st *State, key string) {
	fc.heapSet(st, key, "Int", app("+", fc.heapGet(st, key, "Int"), "1"))
}

func (fc *FnCtx) doUnlock(st *State, full, addr string, mi *monInfo, pos token.Pos) []Val {
	fc.bumpCounter(st, "$unlockcalls")
	want := "1"
	if strings.HasSuffix(full, "RUnlock") {
		want = "2"
	}
	if mi != nil && mi.mon != nil {
		fc.assert(st, app("=", fc.heldGet(st, addr), want), "lock-held", "mutex is held in the matching mode at unlock", pos)
		fc.ghostUpdatesAtRelease(st)
		fc.checkAtUnlock(st, pos)
	}
	if want == "2" && mi != nil {
		// a read section must leave the guarded state unchanged
		if snap, ok := st.rsnap[addr]; ok {
			for _, g := range fc.guardedFieldsOf(mi) {
				ot := fc.resolveType(g.Type, mi.owner.(*types.Named).Obj().Pkg())
				if !types.Identical(ot, mi.owner) {
					continue
				}
				_, ft := fc.fieldOwner(ot, g.Field, fc.monitorEnv(st, mi))
				sort := fmt.Sprintf("(Array Int %s)", fc.sortOf(ft))
				key := fc.fieldKey(ot, g.Field)
				a, b := app("select", fc.heapGet(st, key, sort), mi.base.T), app("select", fc.heapGet(snap, key, sort), mi.base.T)
				fc.assertNamed(st, app("=", a, b), "rlock-frame", g.Field, "guarded field "+g.Field+" unchanged inside read-locked section", pos)
			}
		}
	} else {
		fc.release(st, mi, pos)
	}
	fc.heldSet(st, addr, "0")
	return nil
}

// runFuncArg runs a function-valued argument (closure literal, method value or function) once.
func (fc *FnCtx) runFuncArg(st *State, e ast.Expr, v Val, call *ast.CallExpr) {
	switch x := ast.Unparen(e).(type) {
	case *ast.FuncLit:
		fc.inlineFuncLit(st, x, nil, call.Pos())
		return
	case *ast.SelectorExpr:
		if s, ok := fc.info().Selections[x]; ok && s.Kind() == types.MethodVal {
			m := s.Obj().(*types.Func)
			rv := fc.methodRecv(st, x, s)
			fc.applyCall(st, m, &rv, nil, call.Pos(), call)
			return
		}
	case *ast.Ident:
		if f, ok := fc.info().ObjectOf(x).(*types.Func); ok {
			fc.applyCall(st, f, nil, nil, call.Pos(), call)
			return
		}
	}
	if cl, ok := fc.eng.closures[v.T]; ok && cl.fc == fc {
		fc.inlineFuncLit(st, cl.lit, nil, call.Pos())
		return
	}
	fc.fail(e.Pos(), "function argument that cannot be resolved (outside subset)")
}

// checkGuard: lock-held obligation for a guarded field access.
func (fc *FnCtx) checkGuard(st *State, owner types.Type, field, base string, isWrite bool, pos token.Pos) {
	if fc.inSpec > 0 {
		return
	}
	n, ok := owner.(*types.Named)
	if !ok {
		return
	}
	cs := fc.eng.contractsForPkg(n.Obj().Pkg())
	if cs == nil {
		return
	}
	for _, g := range cs.Guarded {
		if g.Type != n.Obj().Name() || g.Field != field {
			continue
		}
		if g.MuType != g.Type {
			if g.Via == "" {
				continue // guarded by a mutex of another object: checked through requires held(...)
			}
			// guarded by the mutex of the object the ghost field `via` points to
			mt := fc.resolveType(g.MuType, n.Obj().Pkg())
			ms, ok := mt.Underlying().(*types.Struct)
			if !ok {
				fc.fail(pos, "guarded via: %s is not a struct", g.MuType)
			}
			midx := fieldIndex(mt, g.MuField)
			if midx < 0 {
				fc.fail(pos, "guarded: no mutex field %s in %s", g.MuField, g.MuType)
			}
			_ = ms
			key := fc.fieldKey(owner, g.Via)
			ownerRef := app("select", fc.heapGet(st, key, "(Array Int Int)"), base)
			addr := fc.muFieldAddr(st, Val{T: ownerRef, Ty: types.NewPointer(mt)}, mt, midx)
			h := fc.heldGet(st, addr)
			goal := not(app("=", h, "0"))
			if isWrite {
				goal = app("=", h, "1")
			}
			fresh := app(">", base, fc.heapGet(fc.entry, "$alloc", "Int"))
			what := "read"
			if isWrite {
				what = "write"
			}
			fc.assertNamed(st, or(goal, fresh), "lock-held", "", fmt.Sprintf("%s of %s.%s happens with %s.%s of its %s held", what, g.Type, field, g.MuType, g.MuField, g.Via), pos)
			continue
		}
		s := owner.Underlying().(*types.Struct)
		idx := -1
		for i := 0; i < s.NumFields(); i++ {
			if s.Field(i).Name() == g.MuField {
				idx = i
			}
		}
		if idx < 0 {
			fc.fail(pos, "guarded: no mutex field %s in %s", g.MuField, g.Type)
		}
		addr := fc.muFieldAddr(st, Val{T: base, Ty: types.NewPointer(owner)}, owner, idx)
		h := fc.heldGet(st, addr)
		var goal string
		if isWrite {
			goal = app("=", h, "1")
		} else {
			goal = not(app("=", h, "0"))
		}
		fresh := app(">", base, fc.heapGet(fc.entry, "$alloc", "Int"))
		what := "read"
		if isWrite {
			what = "write"
		}
		fc.assertNamed(st, or(goal, fresh), "lock-held", "", fmt.Sprintf("%s of %s.%s happens with %s.%s held", what, g.Type, field, g.MuType, g.MuField), pos)
	}
}

// ---- frame obligations ----

func (fc *FnCtx) isFresh(t string) string {
	return app(">", t, fc.heapGet(fc.entry, "$alloc", "Int"))
}

func (fc *FnCtx) checkFrameField(st *State, owner types.Type, field, base string, pos token.Pos) {
	if !fc.checkingFrame || fc.inlineDepthFrameOff() {
		return
	}
	key := fc.fieldKey(owner, field)
	alts := []string{fc.isFresh(base)}
	for _, r := range fc.frame {
		if r.key == "*" {
			return
		}
		if r.key != key {
			continue
		}
		if r.base == "" {
			return
		}
		alts = append(alts, app("=", base, r.base))
	}
	fc.assertNamed(st, or(alts...), "frame", "", fmt.Sprintf("write to %s.%s is covered by the modifies clause", fc.typeName(owner), field), pos)
}

func (fc *FnCtx) inlineDepthFrameOff() bool { return false }

func (fc *FnCtx) checkFrameElem(st *State, s Val, i string, pos token.Pos) {
	if !fc.checkingFrame {
		return
	}
	stt := s.Ty.Underlying().(*types.Slice)
	key, _ := fc.elemsKey(stt.Elem())
	arr := app("s-arr", s.T)
	alts := []string{fc.isFresh(arr)}
	for _, r := range fc.frame {
		if r.key == "*" {
			return
		}
		if r.key != key {
			continue
		}
		if r.base == "" {
			return
		}
		c := app("=", arr, r.base)
		if r.lo != "" {
			abs := fc.addIdx(app("s-off", s.T), i)
			c = and(c, fc.leIdx(r.lo, abs), fc.ltIdx(abs, r.hi))
		}
		alts = append(alts, c)
	}
	fc.assertNamed(st, or(alts...), "frame", "", "write to slice element is covered by the modifies clause", pos)
}

func (fc *FnCtx) checkRegionInFrame(st *State, reg region, m *Clause) {
	if reg.key == "*" {
		for _, r := range fc.frame {
			if r.key == "*" {
				return
			}
		}
		fc.assertNamed(st, "false", "frame", "", "callee modifies everything; caller's modifies clause does not", token.NoPos)
		return
	}
	if strings.HasPrefix(reg.key, "ghost$") || strings.HasPrefix(reg.key, "$") {
		return
	}
	var alts []string
	if reg.base != "" {
		alts = append(alts, fc.isFresh(reg.base))
	}
	if reg.lo != "" && reg.hi != "" {
		alts = append(alts, fc.leIdx(reg.hi, reg.lo)) // an empty range modifies nothing
	}
	for _, r := range fc.frame {
		if r.key == "*" {
			return
		}
		if r.key != reg.key {
			continue
		}
		if r.base == "" {
			return
		}
		if reg.base != "" {
			c := app("=", reg.base, r.base)
			if r.lo != "" && reg.lo != "" {
				c = and(c, fc.leIdx(r.lo, reg.lo), fc.leIdx(reg.hi, r.hi))
			}
			alts = append(alts, c)
		}
	}
	fc.assertNamed(st, or(alts...), "frame", "", "callee's modifies ("+m.Text+") is covered by the caller's modifies clause", token.NoPos)
}

func (fc *FnCtx) checkFrameKey(st *State, key, base, what string, pos token.Pos) {
	if !fc.checkingFrame {
		return
	}
	alts := []string{fc.isFresh(base)}
	for _, r := range fc.frame {
		if r.key == "*" {
			return
		}
		if r.key != key {
			continue
		}
		if r.base == "" {
			return
		}
		alts = append(alts, app("=", base, r.base))
	}
	fc.assertNamed(st, or(alts...), "frame", "", what+" is covered by the modifies clause", pos)
}

func fieldIndex(owner types.Type, name string) int {
	s, _ := owner.Underlying().(*types.Struct)
	if s == nil {
		return -1
	}
	for i := 0; i < s.NumFields(); i++ {
		if s.Field(i).Name() == name {
			return i
		}
	}
	return -1
}

func (fc *FnCtx) condsOf(mi *monInfo) []CondDecl {
	n, ok := mi.owner.(*types.Named)
	if !ok || mi.cs == nil {
		return nil
	}
	var out []CondDecl
	for _, c := range mi.cs.Conds {
		if c.Type == n.Obj().Name() && c.MuField == mi.field {
			out = append(out, c)
		}
	}
	return out
}

// condRef: the *sync.Cond stored in field c.Field of the monitor's owner.
func (fc *FnCtx) condRef(st *State, mi *monInfo, c CondDecl) string {
	idx := fieldIndex(mi.owner, c.Field)
	if sT, _ := mi.owner.Underlying().(*types.Struct); sT != nil {
		if _, isStruct := sT.Field(idx).Type().Underlying().(*types.Struct); isStruct {
			return fc.fieldAddr(st, mi.base, idx, token.NoPos).T // sync.Cond value field: its address
		}
	}
	fc.inSpec++
	v := fc.fieldOf(st, mi.base, idx, token.NoPos)
	fc.inSpec--
	return v.T
}

// condOwner: the monitor a Cond method call belongs to. The cond must be the one stored in the declared
// field of the current method's receiver (obligation), e.g. `c := q.popable; c.Wait()` inside a method of q.
func (fc *FnCtx) condOwner(st *State, recv *Val, call *ast.CallExpr) (*monInfo, CondDecl) {
	sig := fc.fn.Type().(*types.Signature)
	r := sig.Recv()
	if r == nil {
		return nil, CondDecl{}
	}
	base, ok := st.vars[r]
	if !ok {
		return nil, CondDecl{}
	}
	sT, owner, isPtr := structOf(base.Ty)
	if sT == nil || !isPtr {
		return nil, CondDecl{}
	}
	n, ok := owner.(*types.Named)
	if !ok {
		return nil, CondDecl{}
	}
	cs := fc.eng.contractsForPkg(n.Obj().Pkg())
	if cs == nil {
		return nil, CondDecl{}
	}
	for _, c := range cs.Conds {
		if c.Type != n.Obj().Name() {
			continue
		}
		mi := &monInfo{owner: owner, field: c.MuField, base: base, cs: cs}
		for _, m := range cs.Monitors {
			if m.Type == c.Type && m.MuField == c.MuField {
				mi.mon = m
			}
		}
		fc.assert(st, app("=", recv.T, fc.condRef(st, mi, c)), "cond", "the condition variable is the one of the receiver's monitor ("+c.Type+"."+c.Field+")", call.Pos())
		return mi, c
	}
	return nil, CondDecl{}
}

// condOwnerQuiet: like condOwner, for the loop-head havoc (no obligation is generated).
func (fc *FnCtx) condOwnerQuiet(st *State) *monInfo {
	sig := fc.fn.Type().(*types.Signature)
	r := sig.Recv()
	if r == nil {
		return nil
	}
	base, ok := st.vars[r]
	if !ok {
		return nil
	}
	sT, owner, isPtr := structOf(base.Ty)
	if sT == nil || !isPtr {
		return nil
	}
	n, ok := owner.(*types.Named)
	if !ok {
		return nil
	}
	cs := fc.eng.contractsForPkg(n.Obj().Pkg())
	if cs == nil {
		return nil
	}
	for _, c := range cs.Conds {
		if c.Type != n.Obj().Name() {
			continue
		}
		mi := &monInfo{owner: owner, field: c.MuField, base: base, cs: cs}
		for _, m := range cs.Monitors {
			if m.Type == c.Type && m.MuField == c.MuField {
				mi.mon = m
			}
		}
		return mi
	}
	return nil
}

// ghostUpdatesAtRelease performs the contract's `atrelease g = e` ghost assignments (simultaneously).
func (fc *FnCtx) ghostUpdatesAtRelease(st *State) {
	if fc.contract == nil || len(fc.contract.AtRelease) == 0 {
		return
	}
	env := fc.newSpecEnv(st, fc.oldState(), fc.decl.Body.Rbrace)
	fc.bindParamsOld(env)
	type upd struct{ key, sort, val string }
	var us []upd
	for _, g := range fc.contract.AtRelease {
		ty, ok := fc.cs.Ghosts[g.Name]
		if !ok {
			fc.fail(token.NoPos, "atrelease: unknown ghost %s", g.Name)
		}
		t := fc.resolveType(ty, fc.pkg.Types)
		v := fc.assignConvSpec(env.eval(g.E), t)
		us = append(us, upd{"ghost$" + g.Name, fc.sortOf(t), v.T})
	}
	for _, u := range us {
		fc.heapSet(st, u.key, u.sort, u.val)
	}
}

// checkBlocking: acquiring a mutex declared `blocking T.f` must not happen while a monitor mutex of the
// current receiver is held (holding one key never blocks operations on another key).
func (fc *FnCtx) checkBlocking(st *State, mi *monInfo, call *ast.CallExpr) {
	if mi == nil || fc.cs == nil {
		return
	}
	n, ok := mi.owner.(*types.Named)
	if !ok {
		return
	}
	isBlocking := false
	for _, b := range fc.cs.Blocking {
		if b == n.Obj().Name()+"."+mi.field {
			isBlocking = true
		}
	}
	if !isBlocking {
		return
	}
	sig := fc.fn.Type().(*types.Signature)
	r := sig.Recv()
	if r == nil {
		return
	}
	base, ok := st.vars[r]
	if !ok {
		return
	}
	sT, owner, isPtr := structOf(base.Ty)
	rn, ok := owner.(*types.Named)
	if sT == nil || !isPtr || !ok {
		return
	}
	for _, m := range fc.cs.Monitors {
		if m.Type != rn.Obj().Name() {
			continue
		}
		idx := fieldIndex(owner, m.MuField)
		if idx < 0 {
			continue
		}
		addr := fc.muFieldAddr(st, base, owner, idx)
		fc.assertNamed(st, app("=", fc.heldGet(st, addr), "0"), "no-block-under-table-lock", "", "the table mutex "+m.Type+"."+m.MuField+" is not held while blocking on "+n.Obj().Name()+"."+mi.field, call.Pos())
	}
}

// muFieldAddr: identity of the mutex stored in field idx of *base: the field's address for a mutex value
// field, the stored pointer for a *sync.Mutex field.
func (fc *FnCtx) muFieldAddr(st *State, base Val, owner types.Type, idx int) string {
	s := owner.Underlying().(*types.Struct)
	if _, isPtr := s.Field(idx).Type().Underlying().(*types.Pointer); isPtr {
		fc.inSpec++
		v := fc.fieldOf(st, base, idx, token.NoPos)
		fc.inSpec--
		return v.T
	}
	return fc.fieldAddr(st, base, idx, token.NoPos).T
}

// checkFrameRange: copy(dst, ...) writes dst[0..n): that range must lie inside the modifies clause (or n == 0).
func (fc *FnCtx) checkFrameRange(st *State, s Val, n string, pos token.Pos) {
	if !fc.checkingFrame {
		return
	}
	stt := s.Ty.Underlying().(*types.Slice)
	key, _ := fc.elemsKey(stt.Elem())
	arr := app("s-arr", s.T)
	alts := []string{fc.isFresh(arr), app("=", n, fc.idxLit(0))}
	for _, r := range fc.frame {
		if r.key == "*" {
			return
		}
		if r.key != key {
			continue
		}
		if r.base == "" {
			return
		}
		c := app("=", arr, r.base)
		if r.lo != "" {
			lo := app("s-off", s.T)
			c = and(c, fc.leIdx(r.lo, lo), fc.leIdx(fc.addIdx(lo, n), r.hi))
		}
		alts = append(alts, c)
	}
	fc.assertNamed(st, or(alts...), "frame", "", "the range written by copy is covered by the modifies clause", pos)
}

// checkAtUnlock asserts the contract's `atunlock` clauses: the action specification of the function's critical
// sections. old() denotes the state at the start of the critical section being closed (the function's entry
// state when the caller acquired the lock).
func (fc *FnCtx) checkAtUnlock(st *State, pos token.Pos) {
	if fc.contract == nil || len(fc.contract.AtUnlock) == 0 || fc.inlineOld != nil {
		return
	}
	old := st.csSnap
	if old == nil {
		old = fc.entry
	}
	env := fc.newSpecEnv(st, old, fc.decl.Body.Rbrace)
	fc.bindParamsOld(env)
	for i, c := range fc.contract.AtUnlock {
		label := c.Label
		if label == "" {
			label = fmt.Sprint(i + 1)
		}
		// a clause that mentions a local variable not yet assigned at this Unlock does not apply to it
		var goal string
		skip := false
		func() {
			defer func() {
				if r := recover(); r != nil {
					if ve, ok := r.(vcError); ok && strings.Contains(ve.msg, "has no value at this point") {
						skip = true
						return
					}
					panic(r)
				}
			}()
			goal = env.evalBool(c.E)
		}()
		if skip {
			fc.dropped["atunlock #"+label+" not checked at an Unlock that precedes the assignment of a local it mentions"] = true
			continue
		}
		fc.assertNamed(st, goal, "atunlock", label, "action of the critical section: "+c.Text, pos)
	}
}

// ghostUpdatesAfterCall performs the contract's `aftercall callee lhs = e` ghost assignments; `result` denotes
// the call's (first) result. lhs is a ghost variable or a ghost field of `result`.
func (fc *FnCtx) ghostUpdatesAfterCall(st *State, callee string, results []Val) {
	if fc.contract == nil || fc.contract.AfterCall == nil || fc.inlineOld != nil {
		return
	}
	ups := fc.contract.AfterCall[callee]
	if len(ups) == 0 {
		return
	}
	env := fc.newSpecEnv(st, fc.oldState(), fc.decl.Body.Rbrace)
	fc.bindParamsOld(env)
	if len(results) > 0 {
		env.bound["result"] = results[0]
	}
	for i := range results {
		env.bound[fmt.Sprintf("result%d", i)] = results[i]
	}
	for _, g := range ups {
		if g.Name == "use" {
			fc.useLemmaEnv(st, &Clause{E: g.E, Text: g.Text}, env)
			continue
		}
		lhs, err := ParseSpec(g.Name)
		if err != nil {
			fc.fail(token.NoPos, "aftercall: %v", err)
		}
		switch lhs.Kind {
		case SField:
			base := env.eval(lhs.Args[0])
			_, owner, isPtr := structOf(base.Ty)
			gt, ok := env.ghostField(owner, lhs.Name)
			if !ok || !isPtr {
				fc.fail(token.NoPos, "aftercall: %s is not a ghost field of a pointer", g.Name)
			}
			v := fc.assignConvSpec(env.eval(g.E), gt)
			key := fc.fieldKey(owner, lhs.Name)
			sort := fmt.Sprintf("(Array Int %s)", fc.sortOf(gt))
			fc.heapSet(st, key, sort, app("store", fc.heapGet(st, key, sort), base.T, v.T))
		case SIdent:
			ty, ok := fc.cs.Ghosts[lhs.Name]
			if !ok {
				fc.fail(token.NoPos, "aftercall: unknown ghost %s", lhs.Name)
			}
			t := fc.resolveType(ty, fc.pkg.Types)
			v := fc.assignConvSpec(env.eval(g.E), t)
			fc.heapSet(st, "ghost$"+lhs.Name, fc.sortOf(t), v.T)
		default:
			fc.fail(token.NoPos, "aftercall: bad left-hand side %s", g.Name)
		}
	}
}
