package main

// Evaluation of spec expressions to SMT terms. Typing is dynamic (on Val.Ty), using the same
// operators as the code translation so that a contract and the code agree on machine semantics.

import (
	"fmt"
	"sort"
	"go/ast"
	"go/constant"
	"go/token"
	"go/types"
	"strconv"
	"strings"
)

type SpecEnv struct {
	fc       *FnCtx
	cur, old *State
	bound    map[string]Val
	scopePos token.Pos
	goLocals bool // resolve identifiers to Go locals of the function under verification
	home     *ContractSet
	homePkg  *types.Package
	inOld    bool
	depth    int
	nargs    int // number of actual arguments at a call site (for vararg())
}

func (fc *FnCtx) newSpecEnv(cur, old *State, scopePos token.Pos) *SpecEnv {
	return &SpecEnv{fc: fc, cur: cur, old: old, bound: map[string]Val{}, scopePos: scopePos, goLocals: true, home: fc.cs, homePkg: fc.pkg.Types}
}

func (env *SpecEnv) child() *SpecEnv {
	n := *env
	n.bound = map[string]Val{}
	for k, v := range env.bound {
		n.bound[k] = v
	}
	return &n
}

func (env *SpecEnv) fail(e *SExpr, f string, a ...interface{}) {
	env.fc.fail(token.NoPos, "spec: %s (in %s)", fmt.Sprintf(f, a...), e.String())
}

func (env *SpecEnv) st() *State {
	if env.inOld {
		return env.old
	}
	return env.cur
}

func (env *SpecEnv) evalBool(e *SExpr) string {
	v := env.eval(e)
	if v.K != nil && v.T == "" {
		v = env.fc.coerce(v, tBool)
	}
	if !isBool(v.Ty) {
		env.fail(e, "boolean expected, got %s", v.Ty)
	}
	return v.T
}

func (env *SpecEnv) eval(e *SExpr) Val {
	fc := env.fc
	fc.inSpec++
	defer func() { fc.inSpec-- }()
	switch e.Kind {
	case SInt:
		k := constant.MakeFromLiteral(e.Name, token.INT, 0)
		if k.Kind() == constant.Unknown {
			env.fail(e, "bad integer literal")
		}
		return Val{Ty: types.Typ[types.UntypedInt], K: k}
	case SStr:
		return fc.constVal(constant.MakeString(e.Name), tString)
	case SIdent:
		return env.evalIdent(e)
	case SOld:
		n := *env
		n.inOld = true
		return n.eval(e.Args[0])
	case SUnary:
		a := env.eval(e.Args[0])
		ops := map[string]token.Token{"!": token.NOT, "-": token.SUB, "^": token.XOR}
		if e.Name == "!" && a.K != nil && a.T == "" {
			a = fc.coerce(a, tBool)
		}
		return fc.unop(ops[e.Name], a, nil, token.NoPos)
	case SBinary:
		return env.evalBinary(e)
	case SIndex:
		return env.evalIndex(e)
	case SField:
		return env.evalField(e)
	case SCall:
		return env.evalCall(e)
	case SQuant:
		return env.evalQuant(e)
	case SSlice:
		base := env.eval(e.Args[0])
		if _, ok := base.Ty.Underlying().(*types.Slice); ok {
			lo, hi := fc.idxLit(0), app("s-len", base.T)
			if e.Args[1] != nil {
				lo = fc.toIdx(env.eval(e.Args[1]))
			}
			if e.Args[2] != nil {
				hi = fc.toIdx(env.eval(e.Args[2]))
			}
			fc.sliceSort()
			fc.viewShift(env.cur, base, lo, base.Ty.Underlying().(*types.Slice).Elem())
			return Val{T: app("mk-slice", app("s-arr", base.T), fc.addIdx(app("s-off", base.T), lo), fc.subIdx(hi, lo), fc.subIdx(app("s-cap", base.T), lo)), Ty: base.Ty}
		}
		if isString(base.Ty) {
			lo, hi := fc.idxLit(0), app("gs.len", base.T)
			if e.Args[1] != nil {
				lo = fc.toIdx(env.eval(e.Args[1]))
			}
			if e.Args[2] != nil {
				hi = fc.toIdx(env.eval(e.Args[2]))
			}
			return Val{T: fc.strSub(base.T, lo, hi), Ty: base.Ty}
		}
		env.fail(e, "slice expression on %s", base.Ty)
	}
	env.fail(e, "unsupported spec expression")
	return Val{}
}

func (env *SpecEnv) evalIdent(e *SExpr) Val {
	fc := env.fc
	switch e.Name {
	case "true":
		return Val{T: "true", Ty: tBool}
	case "false":
		return Val{T: "false", Ty: tBool}
	case "nil":
		return Val{T: "0", Ty: types.Typ[types.UntypedNil]}
	}
	if v, ok := env.bound[e.Name]; ok {
		return v
	}
	if env.goLocals && env.scopePos.IsValid() {
		if sc := fc.pkg.Types.Scope().Innermost(env.scopePos); sc != nil {
			if _, obj := sc.LookupParent(e.Name, env.scopePos); obj != nil {
				if v, ok := obj.(*types.Var); ok && !(v.Pkg() != nil && v.Parent() == v.Pkg().Scope()) {
					if val, ok := env.st().vars[v]; ok {
						return val
					}
					if val, ok := env.cur.vars[v]; ok && env.inOld {
						// variable did not exist at entry: old() leaves it as is
						return val
					}
					env.fail(e, "local %s has no value at this point", e.Name)
				}
			}
		}
	}
	if strings.HasPrefix(e.Name, "idx$") {
		// hidden counter of a `for _, x := range` loop
		for o, v := range env.st().vars {
			if o.Name() == e.Name {
				return v
			}
		}
	}
	if env.homePkg != nil {
		if obj := env.homePkg.Scope().Lookup(e.Name); obj != nil {
			switch o := obj.(type) {
			case *types.Const:
				return fc.constVal(o.Val(), o.Type())
			case *types.Var:
				return fc.readGlobal(env.st(), o)
			}
		}
	}
	if env.home != nil {
		if ty, ok := env.home.Ghosts[e.Name]; ok {
			t := fc.resolveType(ty, env.homePkg)
			return Val{T: fc.heapGet(env.st(), "ghost$"+e.Name, fc.sortOf(t)), Ty: t}
		}
	}
	if ty, ok := fc.eng.externs.Ghosts[e.Name]; ok {
		t := fc.resolveType(ty, env.homePkg)
		return Val{T: fc.heapGet(env.st(), "ghost$"+e.Name, fc.sortOf(t)), Ty: t}
	}
	if fc.cs != nil && fc.cs != env.home {
		// a ghost of the package being verified, named by an extern contract written for that package
		if ty, ok := fc.cs.Ghosts[e.Name]; ok {
			t := fc.resolveType(ty, fc.pkg.Types)
			return Val{T: fc.heapGet(env.st(), "ghost$"+e.Name, fc.sortOf(t)), Ty: t}
		}
	}
	if obj := types.Universe.Lookup(e.Name); obj != nil {
		if c, ok := obj.(*types.Const); ok {
			return fc.constVal(c.Val(), c.Type())
		}
	}
	env.fail(e, "unknown identifier %q", e.Name)
	return Val{}
}

func (env *SpecEnv) evalBinary(e *SExpr) Val {
	fc := env.fc
	switch e.Name {
	case "==>":
		return Val{T: implies(env.evalBool(e.Args[0]), env.evalBool(e.Args[1])), Ty: tBool}
	case "<==>":
		return Val{T: app("=", env.evalBool(e.Args[0]), env.evalBool(e.Args[1])), Ty: tBool}
	case "&&":
		return Val{T: and(env.evalBool(e.Args[0]), env.evalBool(e.Args[1])), Ty: tBool}
	case "||":
		return Val{T: or(env.evalBool(e.Args[0]), env.evalBool(e.Args[1])), Ty: tBool}
	}
	ops := map[string]token.Token{"+": token.ADD, "-": token.SUB, "*": token.MUL, "/": token.QUO, "%": token.REM,
		"&": token.AND, "|": token.OR, "^": token.XOR, "&^": token.AND_NOT, "<<": token.SHL, ">>": token.SHR,
		"==": token.EQL, "!=": token.NEQ, "<": token.LSS, "<=": token.LEQ, ">": token.GTR, ">=": token.GEQ}
	a, b := env.eval(e.Args[0]), env.eval(e.Args[1])
	op := ops[e.Name]
	if op == token.EQL || op == token.NEQ {
		if r, ok := fc.nilCompare(a, b); ok {
			if op == token.NEQ {
				r = not(r)
			}
			return Val{T: r, Ty: tBool}
		}
		if isBool(a.Ty) || isBool(b.Ty) {
			if a.K != nil && a.T == "" {
				a = fc.coerce(a, tBool)
			}
			if b.K != nil && b.T == "" {
				b = fc.coerce(b, tBool)
			}
		}
		_, ai := a.Ty.Underlying().(*types.Interface)
		_, bi := b.Ty.Underlying().(*types.Interface)
		if ai && !bi {
			b = fc.box(fc.coerce(b, types.Default(b.Ty)), a.Ty)
		} else if bi && !ai {
			a = fc.box(fc.coerce(a, types.Default(a.Ty)), b.Ty)
		}
	}
	// lenient mixing of same-width integer types in specs: adopt the left type
	if isInteger(a.Ty) && isInteger(b.Ty) && !isUntyped(a.Ty) && !isUntyped(b.Ty) && op != token.SHL && op != token.SHR {
		if !types.Identical(a.Ty.Underlying(), b.Ty.Underlying()) {
			if intWidth(a.Ty) != intWidth(b.Ty) || isUnsigned(a.Ty) != isUnsigned(b.Ty) {
				env.fail(e, "mixed integer types %s and %s (add a conversion)", a.Ty, b.Ty)
			}
			b = Val{T: b.T, Ty: a.Ty}
		}
	}
	r := fc.binop(op, a, b, nil, token.NoPos)
	return r
}

func (env *SpecEnv) evalIndex(e *SExpr) Val {
	fc := env.fc
	base := env.eval(e.Args[0])
	switch t := base.Ty.Underlying().(type) {
	case *types.Slice:
		i := fc.toIdx(env.eval(e.Args[1]))
		return Val{T: fc.sliceElem(env.st(), base, i, t.Elem()), Ty: t.Elem()}
	case *types.Array:
		i := fc.toIdx(env.eval(e.Args[1]))
		return Val{T: app("select", base.T, i), Ty: t.Elem()}
	case *types.Map:
		k := fc.assignConv(env.eval(e.Args[1]), t.Key())
		v, _ := fc.mapGet(env.st(), base, k, t)
		return v
	case *types.Basic:
		if isString(base.Ty) {
			i := fc.toIdx(env.eval(e.Args[1]))
			return Val{T: app("gs.at", base.T, i), Ty: tUint8}
		}
	case *types.Pointer:
		if at, ok := t.Elem().Underlying().(*types.Array); ok {
			arr := fc.deref(env.st(), base, token.NoPos)
			i := fc.toIdx(env.eval(e.Args[1]))
			return Val{T: app("select", arr.T, i), Ty: at.Elem()}
		}
	}
	env.fail(e, "cannot index %s", base.Ty)
	return Val{}
}

func (env *SpecEnv) evalField(e *SExpr) Val {
	fc := env.fc
	// package-qualified name?
	if b := e.Args[0]; b.Kind == SIdent {
		if _, isBound := env.bound[b.Name]; !isBound && env.homePkg != nil {
			for _, imp := range env.homePkg.Imports() {
				if imp.Name() == b.Name {
					if obj := imp.Scope().Lookup(e.Name); obj != nil {
						switch o := obj.(type) {
						case *types.Const:
							return fc.constVal(o.Val(), o.Type())
						case *types.Var:
							return fc.readGlobal(env.st(), o)
						}
					}
				}
			}
		}
	}
	base := env.eval(e.Args[0])
	s, owner, isPtr := structOf(base.Ty)
	if s == nil {
		env.fail(e, "field %s of non-struct %s", e.Name, base.Ty)
	}
	// ghost field?
	if gt, ok := env.ghostField(owner, e.Name); ok {
		if !isPtr {
			// ghost field of a local struct variable: keyed by the variable's (abstract) address
			addr := ""
			if a0 := e.Args[0]; a0.Kind == SIdent && env.goLocals && env.scopePos.IsValid() {
				if sc := fc.pkg.Types.Scope().Innermost(env.scopePos); sc != nil {
					if _, obj := sc.LookupParent(a0.Name, env.scopePos); obj != nil {
						if v, ok := obj.(*types.Var); ok {
							addr = sym(fmt.Sprintf("addr$%s$%d", v.Name(), v.Pos()))
							fc.declareOnce(addr, fmt.Sprintf("(declare-fun %s () Int)", addr))
							fc.declareOnce(addr+"nz", fmt.Sprintf("(assert (not (= %s 0)))", addr))
							fc.ghostDefaults(env.st(), addr, v.Type())
						}
					}
				}
			}
			if a0 := e.Args[0]; addr == "" && a0.Kind == SField {
				// ghost field of a struct-valued field y.f: keyed by the field's address
				if a, ok := env.fieldAddrOf(a0); ok {
					addr = a.T
				}
			}
			if addr == "" {
				env.fail(e, "ghost field on struct value")
			}
			key := fc.fieldKey(owner, e.Name)
			arr := fc.heapGet(env.st(), key, fmt.Sprintf("(Array Int %s)", fc.sortOf(gt)))
			return Val{T: app("select", arr, addr), Ty: gt}
		}
		key := fc.fieldKey(owner, e.Name)
		arr := fc.heapGet(env.st(), key, fmt.Sprintf("(Array Int %s)", fc.sortOf(gt)))
		return Val{T: app("select", arr, base.T), Ty: gt}
	}
	// real field (possibly promoted through embedding)
	obj, path, _ := types.LookupFieldOrMethod(base.Ty, true, env.homePkg, e.Name)
	if obj == nil {
		// unexported field of another package: look it up with that package
		if n, ok := owner.(*types.Named); ok && n.Obj().Pkg() != nil {
			obj, path, _ = types.LookupFieldOrMethod(base.Ty, true, n.Obj().Pkg(), e.Name)
		}
	}
	if _, ok := obj.(*types.Var); !ok {
		env.fail(e, "no field %s in %s", e.Name, base.Ty)
	}
	return fc.selectPath(env.st(), base, path, token.NoPos)
}

func (env *SpecEnv) ghostField(owner types.Type, name string) (types.Type, bool) {
	n, ok := owner.(*types.Named)
	if !ok {
		return nil, false
	}
	short := n.Obj().Name() + "." + name
	long := short
	if n.Obj().Pkg() != nil {
		long = n.Obj().Pkg().Path() + "." + short
	}
	fc := env.fc
	for _, cs := range []*ContractSet{env.home, fc.cs, fc.eng.externs, fc.eng.contractsForPkg(n.Obj().Pkg())} {
		if cs == nil {
			continue
		}
		if ty, ok := cs.GhostFlds[long]; ok {
			return fc.resolveType(ty, n.Obj().Pkg()), true
		}
		if ty, ok := cs.GhostFlds[short]; ok && (cs != fc.eng.externs) {
			return fc.resolveType(ty, n.Obj().Pkg()), true
		}
	}
	return nil, false
}

func (env *SpecEnv) evalQuant(e *SExpr) Val {
	fc := env.fc
	n := env.child()
	var binders []string
	for _, v := range e.Vars {
		ty := fc.resolveType(v.Type, env.homePkg)
		fc.nfresh++
		name := sym(fmt.Sprintf("%s?%d", v.Name, fc.nfresh))
		n.bound[v.Name] = Val{T: name, Ty: ty}
		binders = append(binders, fmt.Sprintf("(%s %s)", name, fc.sortOf(ty)))
	}
	fc.noDefine++
	body := n.evalBool(e.Args[0])
	var pats []string
	for _, tr := range e.Trigs {
		var ts []string
		for _, t := range tr {
			ts = append(ts, n.eval(t).T)
		}
		pats = append(pats, ":pattern ("+strings.Join(ts, " ")+")")
	}
	fc.noDefine--
	if len(pats) > 0 {
		body = "(! " + body + " " + strings.Join(pats, " ") + ")"
	}
	return Val{T: fmt.Sprintf("(%s (%s) %s)", e.Name, strings.Join(binders, " "), body), Ty: tBool}
}

func (env *SpecEnv) evalCall(e *SExpr) Val {
	fc := env.fc
	// method-like helpers on values are not supported; callee must be an identifier (maybe a type)
	if e.Fun.Kind != SIdent {
		if e.Fun.Kind == SField && e.Fun.Args[0].Kind == SIdent {
			// pkg.Type(x) conversion or pkg.func
			tn := e.Fun.Args[0].Name + "." + e.Fun.Name
			if t := fc.tryResolveType(tn, env.homePkg); t != nil && len(e.Args) == 1 {
				a := env.eval(e.Args[0])
				if _, fromIface := a.Ty.Underlying().(*types.Interface); fromIface {
					if _, toIface := t.Underlying().(*types.Interface); !toIface {
						return fc.unbox(a, t) // spec-level type assertion x.(pkg.T)
					}
				}
				return fc.convert(a, t, token.NoPos)
			}
		}
		env.fail(e, "unsupported call form")
	}
	name := e.Fun.Name
	arg := func(i int) Val {
		if i >= len(e.Args) {
			env.fail(e, "missing argument %d", i)
		}
		return env.eval(e.Args[i])
	}
	switch name {
	case "len", "cap":
		v := arg(0)
		switch t := v.Ty.Underlying().(type) {
		case *types.Slice:
			if name == "len" {
				return Val{T: app("s-len", v.T), Ty: tInt}
			}
			return Val{T: app("s-cap", v.T), Ty: tInt}
		case *types.Array:
			return fc.constVal(constant.MakeInt64(t.Len()), tInt)
		case *types.Basic:
			if isString(v.Ty) {
				return Val{T: app("gs.len", v.T), Ty: tInt}
			}
		case *types.Map:
			ck := "MC$" + fc.typeName(t.Key()) + "$" + fc.typeName(t.Elem())
			c := app("select", fc.heapGet(env.st(), ck, "(Array Int Int)"), v.T)
			if fc.idxBV() {
				env.fail(e, "len(map) in bv mode")
			}
			return Val{T: c, Ty: tInt}
		}
		env.fail(e, "len of %s", v.Ty)
	case "ite":
		c := env.evalBool(e.Args[0])
		a, b := arg(1), arg(2)
		a, b = fc.unify(a, b)
		if a.K != nil && a.T == "" {
			a, b = fc.coerce(a, tInt), fc.coerce(b, tInt)
		}
		return Val{T: ite(c, a.T, b.T), Ty: a.Ty}
	case "min", "max":
		a, b := arg(0), arg(1)
		a, b = fc.unify(a, b)
		if a.K != nil && a.T == "" {
			a, b = fc.coerce(a, tInt), fc.coerce(b, tInt)
		}
		lt := fc.binop(token.LSS, a, b, nil, token.NoPos).T
		if name == "min" {
			return Val{T: ite(lt, a.T, b.T), Ty: a.Ty}
		}
		return Val{T: ite(lt, b.T, a.T), Ty: a.Ty}
	case "has": // has(m, k): key present in map
		m := arg(0)
		t, ok := m.Ty.Underlying().(*types.Map)
		if !ok {
			env.fail(e, "has() on non-map")
		}
		k := fc.assignConv(arg(1), t.Key())
		_, has := fc.mapGet(env.st(), m, k, t)
		return Val{T: has, Ty: tBool}
	case "held", "wheld", "rheld": // lock state of a mutex designated by x.mu
		addr := env.muAddr(e.Args[0])
		h := app("select", fc.heapGet(env.st(), "$held", "(Array Int Int)"), addr)
		switch name {
		case "held":
			return Val{T: not(app("=", h, "0")), Ty: tBool}
		case "wheld":
			return Val{T: app("=", h, "1"), Ty: tBool}
		default:
			return Val{T: app("=", h, "2"), Ty: tBool}
		}
	case "isfresh": // allocated during this call
		v := arg(0)
		t := v.T
		if _, ok := v.Ty.Underlying().(*types.Slice); ok {
			t = app("s-arr", v.T)
		}
		return Val{T: app(">", t, fc.heapGet(env.old, "$alloc", "Int")), Ty: tBool}
	case "nalloc": // the allocation counter (every allocated reference is <= it)
		return Val{T: fc.heapGet(env.st(), "$alloc", "Int"), Ty: tInt}
	case "allocated": // the reference was allocated before the current program point
		v := arg(0)
		t := v.T
		if _, ok := v.Ty.Underlying().(*types.Slice); ok {
			t = app("s-arr", v.T)
		}
		return Val{T: app("<=", t, fc.heapGet(env.st(), "$alloc", "Int")), Ty: tBool}
	case "elt": // elt(s, k, i) == s[k+i], as an application whose last argument is i itself: a quantifier
		// over i triggered on elt(s, k, i) matches whatever index expression is used (E-matching is syntactic:
		// a pattern (select c (+ base i)) does not match (select c (+ base n 4)))
		sv := arg(0)
		var elem types.Type
		switch t := sv.Ty.Underlying().(type) {
		case *types.Slice:
			elem = t.Elem()
		case *types.Array: // ghost array value
			elem = t.Elem()
		default:
			env.fail(e, "elt: first argument must be a slice or a ghost array")
		}
		fn := fc.eltFn(elem)
		if _, ok := sv.Ty.Underlying().(*types.Array); ok {
			return Val{T: app(fn, sv.T, fc.toIdx(arg(1)), fc.toIdx(arg(2))), Ty: elem}
		}
		key, srt := fc.elemsKey(elem)
		c := app("select", fc.heapGet(env.st(), key, srt), app("s-arr", sv.T))
		return Val{T: app(fn, c, fc.addIdx(app("s-off", sv.T), fc.toIdx(arg(1))), fc.toIdx(arg(2))), Ty: elem}
	case "oncedone": // oncedone(x.f): has the sync.Once value field f of *x fired
		a, ok := env.fieldAddrOf(e.Args[0])
		if !ok {
			env.fail(e, "oncedone: argument must be a sync.Once field y.f of a pointer y")
		}
		return Val{T: app("select", fc.heapGet(env.st(), "$oncedone", "(Array Int Bool)"), a.T), Ty: tBool}
	case "chancap": // capacity given to make(chan T, n) (0 for an unbuffered channel)
		return Val{T: app("select", fc.heapGet(env.st(), "$chancap", "(Array Int Int)"), arg(0).T), Ty: tInt}
	case "lockcalls": // number of Lock/RLock calls executed so far (any mutex)
		return Val{T: fc.heapGet(env.st(), "$lockcalls", "Int"), Ty: tInt}
	case "unlockcalls": // number of Unlock/RUnlock calls executed so far (any mutex)
		return Val{T: fc.heapGet(env.st(), "$unlockcalls", "Int"), Ty: tInt}
	case "spawned": // number of go statements executed by this function so far
		return Val{T: fc.heapGet(env.st(), "$spawns", "Int"), Ty: tInt}
	case "noelems": // the empty set of references ([0]bool, all false)
		return Val{T: "((as const (Array Int Bool)) false)", Ty: types.NewArray(tBool, 0)}
	case "addrof": // addrof(y.f): the address of the struct-valued field f of *y
		if a, ok := env.fieldAddrOf(e.Args[0]); ok {
			return a
		}
		env.fail(e, "addrof: argument must be a struct-valued field y.f of a pointer y")
	case "arrid":
		return Val{T: app("s-arr", arg(0).T), Ty: types.Typ[types.Uintptr]}
	case "off":
		return Val{T: app("s-off", arg(0).T), Ty: tInt}
	case "tag": // dynamic type tag of an interface value
		return Val{T: app("iface.tag", arg(0).T), Ty: tInt}
	case "tagof": // tagof(T): the type tag of the (package-level) type T
		t := fc.resolveType(specTypeText(e.Args[0]), env.homePkg)
		fc.box(fc.zero(t), types.NewInterfaceType(nil, nil))
		return Val{T: fmt.Sprint(fc.typeTag(t)), Ty: tInt}
	case "visited": // visited(loopOrdinal, key): ghost set of a map-range loop
		ord, _ := strconv.Atoi(e.Args[0].Name)
		key := fmt.Sprintf("$visited$%d", ord)
		srt, ok := fc.heapSort[key]
		if !ok {
			env.fail(e, "no map range loop %d seen yet", ord)
		}
		return Val{T: app("select", fc.heapGet(env.st(), key, srt), arg(1).T), Ty: tBool}
	case "fieldmap": // fieldmap(T.f): the whole current heap array of field f (reference -> value), as a ghost array
		a := e.Args[0]
		if a.Kind != SField {
			env.fail(e, "fieldmap(T.f) expected")
		}
		var tn string
		if a.Args[0].Kind == SIdent {
			tn = a.Args[0].Name
		} else if a.Args[0].Kind == SField && a.Args[0].Args[0].Kind == SIdent {
			tn = a.Args[0].Args[0].Name + "." + a.Args[0].Name
		} else {
			env.fail(e, "fieldmap(T.f) expected")
		}
		t := fc.resolveType(tn, env.homePkg)
		ot, ft := fc.fieldOwner(t, a.Name, env)
		key := fc.fieldKey(ot, a.Name)
		arr := fc.heapGet(env.st(), key, fmt.Sprintf("(Array Int %s)", fc.sortOf(ft)))
		return Val{T: arr, Ty: types.NewArray(ft, 0)}
	case "vararg": // vararg(i): the i-th actual argument of the call as an interface value (nil when absent)
		k, _ := strconv.Atoi(e.Args[0].Name)
		fc.ifaceSort()
		if v, ok := env.bound[fmt.Sprintf("$%d", k)]; ok {
			return fc.assignConvSpec(v, types.NewInterfaceType(nil, nil))
		}
		return Val{T: "iface.nil", Ty: types.NewInterfaceType(nil, nil)}
	case "chanclosed": // ghost: has close(ch) been executed
		return Val{T: app("select", fc.heapGet(env.st(), "$chanclosed", "(Array Int Bool)"), arg(0).T), Ty: tBool}
	case "sleepers", "woken": // ghost counters of a sync.Cond (number parked / signalled and not yet resumed)
		key := map[string]string{"sleepers": "$condsleep", "woken": "$condwoken"}[name]
		var ref string
		if a := e.Args[0]; a.Kind == SField {
			// x.cond where cond is a sync.Cond value field: its address identifies the condition variable
			base := env.eval(a.Args[0])
			if sT, owner, isPtr := structOf(base.Ty); sT != nil && isPtr {
				if idx := fieldIndex(owner, a.Name); idx >= 0 {
					if _, isStruct := sT.Field(idx).Type().Underlying().(*types.Struct); isStruct {
						ref = fc.fieldAddr(env.st(), base, idx, token.NoPos).T
					}
				}
			}
		}
		if ref == "" {
			ref = arg(0).T
		}
		return Val{T: app("select", fc.heapGet(env.st(), key, "(Array Int Int)"), ref), Ty: tInt}
	case "store": // store(a, i, v): functional update of a ghost array
		a := arg(0)
		at, ok := a.Ty.Underlying().(*types.Array)
		if !ok {
			env.fail(e, "store() needs a ghost array")
		}
		return Val{T: app("store", a.T, fc.toIdx(arg(1)), fc.assignConvSpec(arg(2), at.Elem()).T), Ty: a.Ty}
	case "deref":
		return fc.deref(env.st(), arg(0), token.NoPos)
	case "bitsum": // number of set bits of a bit-vector value, as a sum of its bits (definition of popcount)
		v := arg(0)
		if !isInteger(v.Ty) || !fc.isBVType(v.Ty) {
			env.fail(e, "bitsum needs a bit-vector integer")
		}
		w := intWidth(v.Ty)
		var ts []string
		for i := 0; i < w; i++ {
			if fc.isBVType(tInt) {
				ts = append(ts, fmt.Sprintf("((_ zero_extend 63) ((_ extract %d %d) %s))", i, i, v.T))
			} else {
				ts = append(ts, fmt.Sprintf("(ite (= ((_ extract %d %d) %s) #b1) 1 0)", i, i, v.T))
			}
		}
		if fc.isBVType(tInt) {
			return Val{T: app("bvadd", ts...), Ty: tInt}
		}
		return Val{T: app("+", ts...), Ty: tInt}
	case "apply", "safe": // apply(f, args...): value of the pure closure f; safe(f, args...): f's body cannot panic on args
		f := arg(0)
		cl, ok := fc.eng.closures[f.T]
		if !ok || cl.fc != fc {
			env.fail(e, "apply/safe: argument is not a closure literal of the function under verification")
		}
		var as []Val
		for i := 1; i < len(e.Args); i++ {
			as = append(as, arg(i))
		}
		return env.applyClosure(e, cl, as, name == "safe")
	case "cs": // cs(e): value of e when the last critical section began (right after Lock)
		snap := env.cur.csSnap
		if snap == nil {
			env.fail(e, "cs(): no critical section was entered on this path")
		}
		n := *env
		n.cur, n.inOld = snap, false
		return n.eval(e.Args[0])
	case "panicking":
		return Val{T: orTrue(env.st().panick), Ty: tBool}
	}
	// conversion?
	if t := fc.tryResolveType(name, env.homePkg); t != nil {
		if len(e.Args) != 1 {
			env.fail(e, "conversion takes one argument")
		}
		a := arg(0)
		if isString(t) {
			if sl, ok := a.Ty.Underlying().(*types.Slice); ok && basicOf(sl.Elem()) != nil && basicOf(sl.Elem()).Kind() == types.Uint8 {
				return fc.bytesToString(env.st(), a, t)
			}
		}
		if _, fromTP := a.Ty.(*types.TypeParam); fromTP {
			if _, toIface := t.Underlying().(*types.Interface); toIface {
				return fc.box(a, t) // any(x) for x of a type parameter's type
			}
		}
		if _, fromIface := a.Ty.Underlying().(*types.Interface); fromIface {
			if _, toIface := t.Underlying().(*types.Interface); !toIface {
				return fc.unbox(a, t) // spec-level type assertion x.(T)
			}
		}
		return fc.convert(a, t, token.NoPos)
	}
	// pure / opaque spec function
	if pf, home := env.findPure(name); pf != nil {
		return env.applyPure(pf, home, e)
	}
	env.fail(e, "unknown spec function %q", name)
	return Val{}
}

func (env *SpecEnv) findPure(name string) (*PureFn, *ContractSet) {
	fc := env.fc
	for _, cs := range []*ContractSet{env.home, fc.cs, fc.eng.externs} {
		if cs == nil {
			continue
		}
		if pf, ok := cs.Pures[name]; ok {
			return pf, cs
		}
	}
	// spec functions of other repository packages (e.g. pc of bitmap1024/internal used by bitmap1024)
	var paths []string
	for p := range fc.eng.csByPkg {
		paths = append(paths, p)
	}
	sort.Strings(paths)
	for _, p := range paths {
		if pf, ok := fc.eng.csByPkg[p].Pures[name]; ok {
			return pf, fc.eng.csByPkg[p]
		}
	}
	return nil, nil
}

func (env *SpecEnv) applyPure(pf *PureFn, home *ContractSet, e *SExpr) Val {
	fc := env.fc
	if len(e.Args) != len(pf.Params) {
		env.fail(e, "%s expects %d arguments", pf.Name, len(pf.Params))
	}
	homePkg := env.homePkg
	if hp := fc.eng.pkgOfContractSet(home); hp != nil {
		homePkg = hp
	}
	var args []Val
	for i, p := range pf.Params {
		pt := fc.resolveType(p.Type, homePkg)
		a := env.eval(e.Args[i])
		a = fc.assignConvSpec(a, pt)
		args = append(args, a)
	}
	rt := fc.resolveType(pf.Ret, homePkg)
	if def, ok := fc.reveal[pf.Name]; ok && pf.Body == nil {
		if dp, dh := env.findPure(def); dp != nil && dp.Body != nil {
			pf, home = dp, dh
		}
	}
	if pf.Body == nil {
		// uninterpreted function (declared once). A slice argument contributes, besides its header, the
		// current content of its backing array as a hidden argument, so the function may depend on the
		// elements (and stays a function of its arguments when the heap changes).
		fn := sym("spec$" + pf.Name)
		var ts, ss []string
		for _, a := range args {
			ts = append(ts, a.T)
			ss = append(ss, fc.sortOf(a.Ty))
			if sl, ok := a.Ty.Underlying().(*types.Slice); ok {
				key, srt := fc.elemsKey(sl.Elem())
				ts = append(ts, app("select", fc.heapGet(env.st(), key, srt), app("s-arr", a.T)))
				ss = append(ss, fmt.Sprintf("(Array %s %s)", fc.I(), fc.sortOf(sl.Elem())))
			}
		}
		if !fc.declared[fn] {
			fc.declared[fn] = true
			fc.addPre(fmt.Sprintf("(declare-fun %s (%s) %s)", fn, strings.Join(ss, " "), fc.sortOf(rt)))
		}
		return Val{T: app(fn, ts...), Ty: rt}
	}
	if env.depth > 40 {
		env.fail(e, "pure function expansion too deep (recursive?)")
	}
	n := &SpecEnv{fc: fc, cur: env.cur, old: env.old, bound: map[string]Val{}, home: home, homePkg: homePkg, inOld: env.inOld, depth: env.depth + 1}
	for i, p := range pf.Params {
		n.bound[p.Name] = args[i]
	}
	r := n.eval(pf.Body)
	r = fc.assignConvSpec(r, rt)
	return r
}

// assignConvSpec: like assignConv but tolerant of same-representation integer types.
func (fc *FnCtx) assignConvSpec(v Val, to types.Type) Val {
	if v.K != nil && (isUntyped(v.Ty) || v.T == "") {
		return fc.coerce(v, to)
	}
	if isUntyped(v.Ty) {
		return fc.coerce(v, to)
	}
	if isInteger(v.Ty) && isInteger(to) && fc.sortOf(v.Ty) != fc.sortOf(to) {
		return fc.convert(v, to, token.NoPos)
	}
	if _, toTP := to.(*types.TypeParam); toTP {
		return Val{T: v.T, Ty: to}
	}
	if _, isIface := to.Underlying().(*types.Interface); isIface {
		_, fromTP := v.Ty.(*types.TypeParam)
		if _, fromIface := v.Ty.Underlying().(*types.Interface); !fromIface || fromTP {
			return fc.box(v, to)
		}
	}
	return Val{T: v.T, Ty: to}
}

// muAddr: the address term of the mutex designated by a spec expression `x.mu` (or `x` for an embedded mutex).
func (env *SpecEnv) muAddr(e *SExpr) string {
	fc := env.fc
	if e.Kind == SField {
		base := env.eval(e.Args[0])
		s, owner, isPtr := structOf(base.Ty)
		if s != nil && isPtr {
			for i := 0; i < s.NumFields(); i++ {
				if s.Field(i).Name() == e.Name {
					return fc.muFieldAddr(env.st(), base, owner, i)
				}
			}
		}
	}
	v := env.eval(e)
	if _, ok := v.Ty.Underlying().(*types.Pointer); ok {
		return v.T
	}
	env.fail(e, "cannot take mutex address")
	return ""
}

func (fc *FnCtx) tryResolveType(text string, pkg *types.Package) (t types.Type) {
	defer func() {
		if r := recover(); r != nil {
			if _, ok := r.(vcError); ok {
				t = nil
				return
			}
			panic(r)
		}
	}()
	return fc.resolveType(text, pkg)
}

func (fc *FnCtx) resolveType(text string, pkg *types.Package) types.Type {
	text = strings.TrimSpace(text)
	key := text
	if pkg != nil {
		key = pkg.Path() + "::" + text
	}
	// a type parameter of the generic receiver of the function under verification (e.g. T in TKeyLocker[T])
	if fc.fn != nil && !strings.ContainsAny(text, ".[]* ") {
		if sig, ok := fc.fn.Type().(*types.Signature); ok {
			if tps := sig.RecvTypeParams(); tps != nil {
				for i := 0; i < tps.Len(); i++ {
					if tps.At(i).Obj().Name() == text {
						return tps.At(i)
					}
				}
			}
			if tps := sig.TypeParams(); tps != nil {
				for i := 0; i < tps.Len(); i++ {
					if tps.At(i).Obj().Name() == text {
						return tps.At(i)
					}
				}
			}
		}
	}
	generic := false
	if fc.fn != nil {
		if sig, ok := fc.fn.Type().(*types.Signature); ok {
			generic = (sig.RecvTypeParams() != nil && sig.RecvTypeParams().Len() > 0) || (sig.TypeParams() != nil && sig.TypeParams().Len() > 0)
		}
	}
	if t, ok := fc.eng.typeCache[key]; ok && !generic {
		if t == nil {
			fc.fail(token.NoPos, "cannot resolve type %q", text)
		}
		return t
	}
	t := fc.resolveType0(text, pkg)
	if !generic {
		fc.eng.typeCache[key] = t
	}
	if t == nil {
		fc.fail(token.NoPos, "cannot resolve type %q", text)
	}
	return t
}

func (fc *FnCtx) typeParamNamed(text string) types.Type {
	if fc.fn == nil || strings.ContainsAny(text, ".[]* ") {
		return nil
	}
	if sig, ok := fc.fn.Type().(*types.Signature); ok {
		for _, tps := range []*types.TypeParamList{sig.RecvTypeParams(), sig.TypeParams()} {
			if tps == nil {
				continue
			}
			for i := 0; i < tps.Len(); i++ {
				if tps.At(i).Obj().Name() == text {
					return tps.At(i)
				}
			}
		}
	}
	return nil
}

func (fc *FnCtx) resolveType0(text string, pkg *types.Package) types.Type {
	if tp := fc.typeParamNamed(text); tp != nil {
		return tp
	}
	switch {
	case strings.HasPrefix(text, "*"):
		if e := fc.resolveType0(text[1:], pkg); e != nil {
			return types.NewPointer(e)
		}
		return nil
	case strings.HasPrefix(text, "[]"):
		if e := fc.resolveType0(text[2:], pkg); e != nil {
			return types.NewSlice(e)
		}
		return nil
	case strings.HasPrefix(text, "["):
		j := strings.Index(text, "]")
		n, err := strconv.Atoi(text[1:j])
		if err != nil {
			return nil
		}
		if e := fc.resolveType0(text[j+1:], pkg); e != nil {
			return types.NewArray(e, int64(n))
		}
		return nil
	case text == "interface{}" || text == "any":
		return types.NewInterfaceType(nil, nil)
	case text == "struct{}":
		return types.NewStruct(nil, nil)
	case strings.HasPrefix(text, "map["):
		// map[K]V (K without brackets)
		if j := strings.Index(text, "]"); j > 0 {
			k := fc.resolveType0(strings.TrimSpace(text[4:j]), pkg)
			v := fc.resolveType0(strings.TrimSpace(text[j+1:]), pkg)
			if k != nil && v != nil {
				return types.NewMap(k, v)
			}
		}
		return nil
	case strings.HasPrefix(text, "<-chan "):
		if e := fc.resolveType0(strings.TrimSpace(text[7:]), pkg); e != nil {
			return types.NewChan(types.RecvOnly, e)
		}
		return nil
	case strings.HasPrefix(text, "chan<- "):
		if e := fc.resolveType0(strings.TrimSpace(text[7:]), pkg); e != nil {
			return types.NewChan(types.SendOnly, e)
		}
		return nil
	case strings.HasPrefix(text, "chan "):
		if e := fc.resolveType0(strings.TrimSpace(text[5:]), pkg); e != nil {
			return types.NewChan(types.SendRecv, e)
		}
		return nil
	}
	if i := strings.LastIndex(text, "."); i >= 0 {
		pn, tn := text[:i], text[i+1:]
		if pkg != nil && (pkg.Name() == pn || pkg.Path() == pn) {
			if o, ok := pkg.Scope().Lookup(tn).(*types.TypeName); ok {
				return o.Type()
			}
		}
		if pkg != nil {
			for _, imp := range pkg.Imports() {
				if imp.Name() == pn || imp.Path() == pn {
					if o, ok := imp.Scope().Lookup(tn).(*types.TypeName); ok {
						return o.Type()
					}
				}
			}
		}
		if p, ok := fc.eng.typesPkgs[pn]; ok {
			if o, ok := p.Scope().Lookup(tn).(*types.TypeName); ok {
				return o.Type()
			}
		}
		// any loaded package with that name (extern specs name library types by package name)
		var paths []string
		for path, p := range fc.eng.typesPkgs {
			if p.Name() == pn {
				paths = append(paths, path)
			}
		}
		sort.Strings(paths)
		for _, path := range paths {
			if o, ok := fc.eng.typesPkgs[path].Scope().Lookup(tn).(*types.TypeName); ok {
				return o.Type()
			}
		}
		return nil
	}
	if pkg != nil {
		if o, ok := pkg.Scope().Lookup(text).(*types.TypeName); ok {
			return o.Type()
		}
	}
	if o, ok := types.Universe.Lookup(text).(*types.TypeName); ok {
		return o.Type()
	}
	return nil
}

// applyClosure evaluates a closure literal whose body is a single `return expr` as a pure function.
func (env *SpecEnv) applyClosure(e *SExpr, cl *closure, args []Val, safeMode bool) Val {
	fc := env.fc
	lit := cl.lit
	if len(lit.Body.List) != 1 {
		env.fail(e, "closure is not a single return statement (cannot be used as a pure function)")
	}
	ret, ok := lit.Body.List[0].(*ast.ReturnStmt)
	if !ok || len(ret.Results) != 1 {
		env.fail(e, "closure is not a single return statement (cannot be used as a pure function)")
	}
	tmp := env.st().clone()
	i := 0
	for _, f := range lit.Type.Params.List {
		for _, n := range f.Names {
			if o := fc.info().Defs[n]; o != nil && i < len(args) {
				tmp.vars[o] = fc.assignConvSpec(args[i], o.Type())
			}
			i++
		}
	}
	fc.noDefine++
	defer func() { fc.noDefine-- }()
	if !safeMode {
		return fc.eval1(tmp, ret.Results[0])
	}
	savedObls, savedCmds, savedSpec, savedCounters := len(fc.obls), len(fc.cmds), fc.inSpec, map[string]int{}
	for k, v := range fc.counters {
		savedCounters[k] = v
	}
	fc.inSpec = 0
	fc.eval1(tmp, ret.Results[0])
	fc.inSpec = savedSpec
	var goals []string
	for _, ob := range fc.obls[savedObls:] {
		goals = append(goals, implies(ob.PC, ob.Goal))
	}
	fc.obls = fc.obls[:savedObls]
	fc.cmds = fc.cmds[:savedCmds]
	fc.counters = savedCounters
	// the outer path condition is a hypothesis of every goal; drop it (we are inside a spec formula evaluated under it)
	return Val{T: and(goals...), Ty: tBool}
}

// fieldAddrOf: for a spec expression y.f (y a pointer to struct), the address of field f.
func (env *SpecEnv) fieldAddrOf(e *SExpr) (Val, bool) {
	if e.Kind != SField {
		return Val{}, false
	}
	y := env.eval(e.Args[0])
	ys, yowner, yptr := structOf(y.Ty)
	if ys == nil || !yptr {
		return Val{}, false
	}
	idx := fieldIndex(yowner, e.Name)
	if idx < 0 {
		return Val{}, false
	}
	return env.fc.fieldAddr(env.st(), y, idx, token.NoPos), true
}

// specTypeText renders a spec expression that names a type (T, pkg.T) back to text.
func specTypeText(e *SExpr) string {
	switch e.Kind {
	case SIdent:
		return e.Name
	case SField:
		return specTypeText(e.Args[0]) + "." + e.Name
	case SUnary:
		return e.Name + specTypeText(e.Args[0])
	}
	return e.Name
}
