package main

// Arithmetic / comparison / conversion on symbolic values, in both integer modes.
// bv mode: exact Go machine semantics (wrap-around, truncating division, shift rules).
// int mode: mathematical integers; code-side callers add overflow obligations.

import (
	"strings"
	"fmt"
	"go/constant"
	"go/token"
	"go/types"
	"math/big"
)

var (
	tInt    = types.Typ[types.Int]
	tBool   = types.Typ[types.Bool]
	tUint64 = types.Typ[types.Uint64]
	tUint8  = types.Typ[types.Uint8]
	tString = types.Typ[types.String]
)

// materialise gives an untyped constant a concrete type/term.
func (fc *FnCtx) coerce(v Val, to types.Type) Val {
	if v.K != nil && (v.T == "" || isUntyped(v.Ty)) {
		return fc.constVal(v.K, to)
	}
	if isUntyped(v.Ty) && basicOf(v.Ty).Kind() == types.UntypedNil {
		return fc.zero(to)
	}
	if isUntyped(v.Ty) && isBool(v.Ty) {
		return Val{T: v.T, Ty: to}
	}
	return v
}

func (fc *FnCtx) constVal(k constant.Value, ty types.Type) Val {
	if isUntyped(ty) {
		switch basicOf(ty).Kind() {
		case types.UntypedBool:
			ty = tBool
		case types.UntypedString:
			ty = tString
		case types.UntypedNil:
			return Val{T: "0", Ty: ty}
		default:
			// keep as untyped int constant; materialised on demand
			if k.Kind() == constant.Int || k.Kind() == constant.Float {
				return Val{Ty: ty, K: k}
			}
		}
	}
	switch {
	case isBool(ty):
		if constant.BoolVal(k) {
			return Val{T: "true", Ty: ty, K: k}
		}
		return Val{T: "false", Ty: ty, K: k}
	case isInteger(ty):
		b := constBig(k)
		if b == nil {
			fc.fail(token.NoPos, "non-integer constant %s for integer type", k)
		}
		if fc.isBVType(ty) {
			return Val{T: bvLit(b, intWidth(ty)), Ty: ty, K: k}
		}
		return Val{T: intLit(b), Ty: ty, K: k}
	case isString(ty):
		return Val{T: fc.strLit(constant.StringVal(k)), Ty: ty, K: k}
	case isFloat(ty):
		fc.sortOf(ty)
		f, _ := constant.Float64Val(k)
		n := sym(fmt.Sprintf("f64.const.%v", f))
		fc.declareOnce(n, fmt.Sprintf("(declare-fun %s () F64)", n))
		return Val{T: n, Ty: ty, K: k}
	}
	if _, ok := ty.Underlying().(*types.Interface); ok {
		// constant converted to interface: box it with its default type
		dv := fc.constVal(k, types.Default(typeOfConst(k)))
		return fc.box(dv, ty)
	}
	fc.fail(token.NoPos, "constant %s of unsupported type %s", k, ty)
	return Val{}
}

func typeOfConst(k constant.Value) types.Type {
	switch k.Kind() {
	case constant.Bool:
		return types.Typ[types.UntypedBool]
	case constant.String:
		return types.Typ[types.UntypedString]
	case constant.Int:
		return types.Typ[types.UntypedInt]
	case constant.Float:
		return types.Typ[types.UntypedFloat]
	}
	return types.Typ[types.UntypedNil]
}

func (fc *FnCtx) strLit(s string) string {
	fc.strSort()
	key := "lit:" + s
	if n, ok := fc.strLits[key]; ok {
		return n
	}
	n := sym(fmt.Sprintf("gs.lit.%d", len(fc.strLits)))
	fc.strLits[key] = n
	fc.addPre(fmt.Sprintf("(declare-fun %s () Str) ; %q", n, s))
	fc.addPre(fmt.Sprintf("(assert (= (gs.len %s) %s))", n, fc.idxLit(int64(len(s)))))
	if s == "" {
		// the empty string is the only string of length 0
		fc.addAxiom("gs.len", fmt.Sprintf("(assert (forall ((s Str)) (! (=> (= (gs.len s) %s) (= s %s)) :pattern ((gs.len s)))))", fc.idxLit(0), n))
	}
	if len(s) <= 64 {
		for i := 0; i < len(s); i++ {
			fc.addPre(fmt.Sprintf("(assert (= (gs.at %s %s) %s))", n, fc.idxLit(int64(i)), bvLit(big.NewInt(int64(s[i])), 8)))
		}
	}
	// distinct literals denote distinct strings
	for k2, n2 := range fc.strLits {
		if len(k2) > 4 && k2[:4] == "lit:" && n2 != n {
			fc.addPre(fmt.Sprintf("(assert (distinct %s %s))", n, n2))
		}
	}
	return n
}

func (fc *FnCtx) zero(ty types.Type) Val {
	if _, ok := ty.(*types.TypeParam); ok {
		// the zero value of a type parameter: one unknown constant of the parameter's sort
		fc.sortOf(ty)
		fc.declareOnce("tparam.zero", "(declare-fun tparam.zero () TParam)")
		return Val{T: "tparam.zero", Ty: ty}
	}
	switch u := ty.Underlying().(type) {
	case *types.Basic:
		switch {
		case u.Info()&types.IsBoolean != 0:
			return Val{T: "false", Ty: ty}
		case u.Info()&types.IsInteger != 0:
			return fc.constVal(constant.MakeInt64(0), ty)
		case u.Info()&types.IsString != 0:
			return Val{T: fc.strLit(""), Ty: ty}
		case u.Info()&types.IsFloat != 0:
			return fc.constVal(constant.MakeFloat64(0), ty)
		default:
			return Val{T: "0", Ty: ty}
		}
	case *types.Pointer, *types.Map, *types.Chan, *types.Signature:
		return Val{T: "0", Ty: ty}
	case *types.Slice:
		fc.sliceSort()
		z := fc.idxLit(0)
		return Val{T: app("mk-slice", "0", z, z, z), Ty: ty}
	case *types.Interface:
		fc.ifaceSort()
		return Val{T: "iface.nil", Ty: ty}
	case *types.Array:
		es := fc.sortOf(u.Elem())
		return Val{T: fmt.Sprintf("((as const (Array %s %s)) %s)", fc.I(), es, fc.zero(u.Elem()).T), Ty: ty}
	case *types.Struct:
		s := fc.sortOf(ty)
		n, isNamed := ty.(*types.Named)
		foreign := isNamed && n.Obj().Pkg() != nil && !hasPrefix(n.Obj().Pkg().Path(), fc.eng.modPath)
		if foreign || u.NumFields() == 0 {
			z := sym("zero$" + s)
			fc.declareOnce(z, fmt.Sprintf("(declare-fun %s () %s)", z, s))
			return Val{T: z, Ty: ty}
		}
		var fs []string
		for i := 0; i < u.NumFields(); i++ {
			fs = append(fs, fc.zero(u.Field(i).Type()).T)
		}
		return Val{T: app(fc.structCtor(ty), fs...), Ty: ty}
	}
	fc.fail(token.NoPos, "zero value of unsupported type %s", ty)
	return Val{}
}

func hasPrefix(s, p string) bool { return len(s) >= len(p) && s[:len(p)] == p }

func (fc *FnCtx) structCtor(ty types.Type) string {
	s := fc.sortOf(ty)
	name := s
	if len(name) > 0 && name[0] == '|' {
		name = name[1 : len(name)-1]
	}
	return sym("mk$" + name)
}

// unify brings two operands of a binary operation to a common type.
func (fc *FnCtx) unify(a, b Val) (Val, Val) {
	au, bu := a.K != nil && isUntyped(a.Ty), b.K != nil && isUntyped(b.Ty)
	switch {
	case au && bu:
		return a, b
	case au:
		return fc.coerce(a, b.Ty), b
	case bu:
		return a, fc.coerce(b, a.Ty)
	}
	if isUntyped(a.Ty) {
		a = fc.coerce(a, b.Ty)
	} else if isUntyped(b.Ty) {
		b = fc.coerce(b, a.Ty)
	}
	return a, b
}

func (fc *FnCtx) rangeFact(t string, ty types.Type) string {
	if !isInteger(ty) || isUntyped(ty) || fc.isBVType(ty) {
		return "true"
	}
	lo, hi := intRange(ty)
	return and(app("<=", intLit(lo), t), app("<=", t, intLit(hi)))
}

// binop evaluates a op b. If st != nil and checks are requested, emits div0/overflow/shift obligations.
func (fc *FnCtx) binop(op token.Token, a, b Val, st *State, pos token.Pos) Val {
	// constant folding of untyped constants
	if a.K != nil && b.K != nil && isUntyped(a.Ty) && isUntyped(b.Ty) {
		switch op {
		case token.EQL, token.NEQ, token.LSS, token.LEQ, token.GTR, token.GEQ:
			r := constant.Compare(a.K, op, b.K)
			return fc.constVal(constant.MakeBool(r), tBool)
		case token.SHL, token.SHR:
			s, _ := constant.Uint64Val(constant.ToInt(b.K))
			return Val{Ty: a.Ty, K: constant.Shift(constant.ToInt(a.K), op, uint(s))}
		case token.QUO:
			return Val{Ty: a.Ty, K: constant.BinaryOp(constant.ToInt(a.K), token.QUO_ASSIGN, constant.ToInt(b.K))}
		case token.LAND, token.LOR:
		default:
			return Val{Ty: a.Ty, K: constant.BinaryOp(a.K, op, b.K)}
		}
	}
	if op == token.SHL || op == token.SHR {
		return fc.shift(op, a, b, st, pos)
	}
	a, b = fc.unify(a, b)
	ty := a.Ty
	switch op {
	case token.LAND:
		return Val{T: and(a.T, b.T), Ty: tBool}
	case token.LOR:
		return Val{T: or(a.T, b.T), Ty: tBool}
	case token.EQL:
		return Val{T: fc.eq(a, b), Ty: tBool}
	case token.NEQ:
		return Val{T: not(fc.eq(a, b)), Ty: tBool}
	}
	if isString(ty) {
		switch op {
		case token.ADD:
			fc.declareOnce("gs.cat", "(declare-fun gs.cat (Str Str) Str)")
			fc.declareAxiomOnce("gs.cat.ax", "gs.cat", fmt.Sprintf("(assert (forall ((a Str) (b Str)) (! (= (gs.len (gs.cat a b)) (%s (gs.len a) (gs.len b))) :pattern ((gs.cat a b)))))", map[bool]string{true: "bvadd", false: "+"}[fc.idxBV()]))
			return Val{T: app("gs.cat", a.T, b.T), Ty: ty}
		case token.LSS, token.LEQ, token.GTR, token.GEQ:
			fc.declareOnce("gs.lt", "(declare-fun gs.lt (Str Str) Bool)")
			switch op {
			case token.LSS:
				return Val{T: app("gs.lt", a.T, b.T), Ty: tBool}
			case token.GTR:
				return Val{T: app("gs.lt", b.T, a.T), Ty: tBool}
			case token.LEQ:
				return Val{T: not(app("gs.lt", b.T, a.T)), Ty: tBool}
			default:
				return Val{T: not(app("gs.lt", a.T, b.T)), Ty: tBool}
			}
		}
	}
	if !isInteger(ty) {
		fc.fail(pos, "operator %s on unsupported type %s", op, ty)
	}
	uns := isUnsigned(ty)
	if fc.isBVType(ty) {
		var f string
		switch op {
		case token.ADD:
			f = "bvadd"
		case token.SUB:
			f = "bvsub"
		case token.MUL:
			f = "bvmul"
		case token.QUO:
			f = map[bool]string{true: "bvudiv", false: "bvsdiv"}[uns]
		case token.REM:
			f = map[bool]string{true: "bvurem", false: "bvsrem"}[uns]
		case token.AND:
			f = "bvand"
		case token.OR:
			f = "bvor"
		case token.XOR:
			f = "bvxor"
		case token.AND_NOT:
			return Val{T: app("bvand", a.T, app("bvnot", b.T)), Ty: ty}
		case token.LSS:
			return Val{T: app(map[bool]string{true: "bvult", false: "bvslt"}[uns], a.T, b.T), Ty: tBool}
		case token.LEQ:
			return Val{T: app(map[bool]string{true: "bvule", false: "bvsle"}[uns], a.T, b.T), Ty: tBool}
		case token.GTR:
			return Val{T: app(map[bool]string{true: "bvugt", false: "bvsgt"}[uns], a.T, b.T), Ty: tBool}
		case token.GEQ:
			return Val{T: app(map[bool]string{true: "bvuge", false: "bvsge"}[uns], a.T, b.T), Ty: tBool}
		default:
			fc.fail(pos, "unsupported operator %s", op)
		}
		if (op == token.QUO || op == token.REM) && st != nil {
			fc.assert(st, not(app("=", b.T, bvLit(big.NewInt(0), intWidth(ty)))), "div0", "divisor is non-zero", pos)
		}
		if op == token.QUO && !uns && b.K != nil && intWidth(ty) == 64 && fc.cs != nil {
			if k := constBig(b.K); k != nil && k.Sign() > 0 && fc.cs.OpaqueDiv[k.String()] {
				return Val{T: app(fc.opaqueDivFn(k), a.T), Ty: ty}
			}
		}
		return Val{T: app(f, a.T, b.T), Ty: ty}
	}
	// int mode
	switch op {
	case token.LSS:
		return Val{T: app("<", a.T, b.T), Ty: tBool}
	case token.LEQ:
		return Val{T: app("<=", a.T, b.T), Ty: tBool}
	case token.GTR:
		return Val{T: app(">", a.T, b.T), Ty: tBool}
	case token.GEQ:
		return Val{T: app(">=", a.T, b.T), Ty: tBool}
	}
	var t string
	switch op {
	case token.ADD:
		t = app("+", a.T, b.T)
	case token.SUB:
		t = app("-", a.T, b.T)
	case token.MUL:
		t = app("*", a.T, b.T)
	case token.QUO:
		fc.goDivDecl()
		if st != nil {
			fc.assert(st, not(app("=", b.T, "0")), "div0", "divisor is non-zero", pos)
		}
		if uns {
			t = app("div", a.T, b.T) // operands are non-negative: Euclidean = truncating
		} else {
			t = app("go.div", a.T, b.T)
		}
	case token.REM:
		fc.goDivDecl()
		if st != nil {
			fc.assert(st, not(app("=", b.T, "0")), "div0", "divisor is non-zero", pos)
		}
		if uns {
			t = app("mod", a.T, b.T)
		} else {
			t = app("go.rem", a.T, b.T)
		}
	default:
		fc.fail(pos, "bitwise operator %s in `arith int` mode (outside subset)", op)
	}
	if st != nil && !isUntyped(ty) {
		// overflow obligation: the exact result fits the type, so Int and machine semantics coincide
		if op == token.ADD || op == token.SUB || op == token.MUL || (op == token.QUO && !uns) {
			fc.assert(st, fc.rangeFact(t, ty), "overflow", fmt.Sprintf("%s does not overflow %s", op, ty), pos)
		}
	}
	return Val{T: t, Ty: ty}
}

func (fc *FnCtx) goDivDecl() {
	fc.declareOnce("go.div", `(define-fun go.div ((a Int) (b Int)) Int (ite (>= a 0) (ite (> b 0) (div a b) (- (div a (- b)))) (ite (> b 0) (- (div (- a) b)) (div (- a) (- b)))))`)
	fc.declareOnce("go.rem", `(define-fun go.rem ((a Int) (b Int)) Int (- a (* b (go.div a b))))`)
}

func (fc *FnCtx) eq(a, b Val) string {
	if a.T == b.T {
		return "true"
	}
	return app("=", a.T, b.T)
}

func (fc *FnCtx) shift(op token.Token, a, b Val, st *State, pos token.Pos) Val {
	if a.K != nil && isUntyped(a.Ty) {
		// untyped constant shifted by non-constant: takes type from context; assume int
		a = fc.coerce(a, tInt)
	}
	ty := a.Ty
	if b.K != nil && isUntyped(b.Ty) {
		b = fc.coerce(b, types.Typ[types.Uint])
	}
	if !fc.isBVType(ty) {
		// only constant shift counts for mathematical integers
		if b.K != nil {
			n, _ := constant.Int64Val(constant.ToInt(b.K))
			p := new(big.Int).Lsh(big.NewInt(1), uint(n))
			if op == token.SHL {
				t := app("*", a.T, p.String())
				if st != nil {
					fc.assert(st, fc.rangeFact(t, ty), "overflow", "shift does not overflow", pos)
				}
				return Val{T: t, Ty: ty}
			}
			return Val{T: app("div", a.T, p.String()), Ty: ty}
		}
		// non-constant count on a mathematical integer: a case split over the counts 0..63 (x * 2^k resp. x div 2^k, linear
		// for each k); larger counts give 0 (or -1 for a negative x shifted right), as in Go
		cnt := b.T
		if fc.isBVType(b.Ty) {
			cnt = fc.bvToInt(b.T, b.Ty)
		} else if st != nil {
			fc.assert(st, app(">=", b.T, "0"), "shift", "shift count is non-negative", pos)
		}
		var t string
		if op == token.SHL {
			t = "0"
		} else {
			t = ite(app("<", a.T, "0"), "(- 1)", "0")
		}
		for k := 63; k >= 0; k-- {
			p := new(big.Int).Lsh(big.NewInt(1), uint(k)).String()
			var e string
			if op == token.SHL {
				e = app("*", a.T, p)
			} else {
				e = app("div", a.T, p)
			}
			t = ite(app("=", cnt, fmt.Sprint(k)), e, t)
		}
		if op == token.SHL && st != nil {
			fc.assert(st, fc.rangeFact(t, ty), "overflow", "shift does not overflow", pos)
		}
		return Val{T: t, Ty: ty}
	}
	w := intWidth(ty)
	cw := intWidth(b.Ty)
	if !fc.isBVType(b.Ty) {
		// count is a mathematical int (mixed mode)
		if st != nil {
			fc.assert(st, app(">=", b.T, "0"), "shift", "shift count is non-negative", pos)
		}
		cntBV := int2bvTerm(b.T, w)
		var f string
		if op == token.SHL {
			f = "bvshl"
		} else if isUnsigned(ty) {
			f = "bvlshr"
		} else {
			f = "bvashr"
		}
		var sat string
		if f == "bvashr" {
			sat = app("bvashr", a.T, bvLit(big.NewInt(int64(w-1)), w))
		} else {
			sat = bvLit(big.NewInt(0), w)
		}
		return Val{T: ite(app(">=", b.T, fmt.Sprint(w)), sat, app(f, a.T, cntBV)), Ty: ty}
	}
	if st != nil && !isUnsigned(b.Ty) {
		fc.assert(st, app("bvsge", b.T, bvLit(big.NewInt(0), cw)), "shift", "shift count is non-negative", pos)
	}
	cnt := b.T
	var big_ string // condition count >= w
	if b.K != nil {
		// constant count: no saturation case split needed
		if n := constBig(b.K); n != nil && n.Sign() >= 0 && n.Cmp(big.NewInt(int64(w))) < 0 {
			var f string
			if op == token.SHL {
				f = "bvshl"
			} else if isUnsigned(ty) {
				f = "bvlshr"
			} else {
				f = "bvashr"
			}
			return Val{T: app(f, a.T, bvLit(n, w)), Ty: ty}
		}
	}
	if cw > w {
		big_ = app("bvuge", cnt, bvLit(big.NewInt(int64(w)), cw))
		cnt = app(fmt.Sprintf("(_ extract %d 0)", w-1), cnt)
	} else if cw < w {
		cnt = app(fmt.Sprintf("(_ zero_extend %d)", w-cw), cnt)
		big_ = "false"
	} else {
		big_ = "false" // SMT semantics already give 0 / sign fill for counts >= w
	}
	var f string
	if op == token.SHL {
		f = "bvshl"
	} else if isUnsigned(ty) {
		f = "bvlshr"
	} else {
		f = "bvashr"
	}
	t := app(f, a.T, cnt)
	if big_ != "false" {
		var sat string
		if f == "bvashr" {
			sat = app("bvashr", a.T, bvLit(big.NewInt(int64(w-1)), w))
		} else {
			sat = bvLit(big.NewInt(0), w)
		}
		t = ite(big_, sat, t)
	}
	return Val{T: t, Ty: ty}
}

func (fc *FnCtx) unop(op token.Token, a Val, st *State, pos token.Pos) Val {
	if a.K != nil && isUntyped(a.Ty) {
		switch op {
		case token.SUB, token.ADD, token.XOR:
			return Val{Ty: a.Ty, K: constant.UnaryOp(op, a.K, 0)}
		case token.NOT:
			return fc.constVal(constant.MakeBool(!constant.BoolVal(a.K)), tBool)
		}
	}
	switch op {
	case token.NOT:
		return Val{T: not(a.T), Ty: a.Ty}
	case token.ADD:
		return a
	case token.SUB:
		if fc.isBVType(a.Ty) {
			return Val{T: app("bvneg", a.T), Ty: a.Ty}
		}
		t := app("-", a.T)
		if st != nil {
			fc.assert(st, fc.rangeFact(t, a.Ty), "overflow", "negation does not overflow", pos)
		}
		return Val{T: t, Ty: a.Ty}
	case token.XOR:
		if fc.isBVType(a.Ty) {
			return Val{T: app("bvnot", a.T), Ty: a.Ty}
		}
		// ^x == -x-1 (signed) or max-x (unsigned)
		if isUnsigned(a.Ty) {
			_, hi := intRange(a.Ty)
			return Val{T: app("-", intLit(hi), a.T), Ty: a.Ty}
		}
		return Val{T: app("-", app("-", a.T), "1"), Ty: a.Ty}
	}
	fc.fail(pos, "unsupported unary operator %s", op)
	return Val{}
}

// convert implements T(v) for integer/bool/string-preserving conversions.
func (fc *FnCtx) convert(v Val, to types.Type, pos token.Pos) Val {
	if v.K != nil && (isUntyped(v.Ty) || v.T == "") {
		if isInteger(to) || isBool(to) || isString(to) && v.K.Kind() == constant.String || isFloat(to) {
			return fc.constVal(v.K, to)
		}
	}
	from := v.Ty
	if types.Identical(from.Underlying(), to.Underlying()) {
		if _, isStruct := from.Underlying().(*types.Struct); !isStruct || fc.sortOf(from) == fc.sortOf(to) {
			return Val{T: v.T, Ty: to, K: v.K}
		}
	}
	switch {
	case isInteger(from) && isInteger(to):
		fb, tb := fc.isBVType(from), fc.isBVType(to)
		if fb && !tb {
			// bit-vector -> mathematical int (mixed mode): exact value of the machine integer
			return Val{T: fc.bvToInt(v.T, from), Ty: to}
		}
		if !fb && tb {
			// mathematical int -> bit-vector: wraps modulo 2^w exactly as the Go conversion does.
			// Peephole: int(x) converted back collapses to a bit-vector conversion of x.
			if inner, iw, signed, ok := peelBvToInt(v.T); ok {
				tw := intWidth(to)
				switch {
				case iw == tw:
					return Val{T: inner, Ty: to}
				case iw > tw:
					return Val{T: app(fmt.Sprintf("(_ extract %d 0)", tw-1), inner), Ty: to}
				case !signed:
					return Val{T: app(fmt.Sprintf("(_ zero_extend %d)", tw-iw), inner), Ty: to}
				default:
					return Val{T: app(fmt.Sprintf("(_ sign_extend %d)", tw-iw), inner), Ty: to}
				}
			}
			return Val{T: int2bvTerm(v.T, intWidth(to)), Ty: to}
		}
		if fb && tb {
			fw, tw := intWidth(from), intWidth(to)
			switch {
			case fw == tw:
				return Val{T: v.T, Ty: to}
			case fw > tw:
				return Val{T: app(fmt.Sprintf("(_ extract %d 0)", tw-1), v.T), Ty: to}
			case isUnsigned(from):
				return Val{T: app(fmt.Sprintf("(_ zero_extend %d)", tw-fw), v.T), Ty: to}
			default:
				return Val{T: app(fmt.Sprintf("(_ sign_extend %d)", tw-fw), v.T), Ty: to}
			}
		}
		flo, fhi := intRange(from)
		tlo, thi := intRange(to)
		if flo.Cmp(tlo) >= 0 && fhi.Cmp(thi) <= 0 {
			return Val{T: v.T, Ty: to}
		}
		m := new(big.Int).Lsh(big.NewInt(1), uint(intWidth(to)))
		if isUnsigned(to) {
			return Val{T: app("mod", v.T, m.String()), Ty: to}
		}
		h := new(big.Int).Rsh(m, 1)
		return Val{T: app("-", app("mod", app("+", v.T, h.String()), m.String()), h.String()), Ty: to}
	}
	if _, ok := to.Underlying().(*types.Interface); ok {
		if _, ok2 := from.Underlying().(*types.Interface); ok2 {
			return Val{T: v.T, Ty: to}
		}
		return fc.box(v, to)
	}
	// pointer / named conversions that keep representation
	if fc.sortOf(from) == fc.sortOf(to) {
		return Val{T: v.T, Ty: to}
	}
	if _, ok := from.Underlying().(*types.Struct); ok {
		if _, ok2 := to.Underlying().(*types.Struct); ok2 && types.Identical(from.Underlying(), to.Underlying()) {
			// T(x) between struct types with the same fields: a bijection between the two sorts
			f := sym("conv$" + fc.typeName(from) + "$" + fc.typeName(to))
			g := sym("conv$" + fc.typeName(to) + "$" + fc.typeName(from))
			if !fc.declared[f] {
				fc.declared[f], fc.declared[g] = true, true
				fc.addPre(fmt.Sprintf("(declare-fun %s (%s) %s)", f, fc.sortOf(from), fc.sortOf(to)))
				fc.addPre(fmt.Sprintf("(declare-fun %s (%s) %s)", g, fc.sortOf(to), fc.sortOf(from)))
				fc.addAxiom(f, fmt.Sprintf("(assert (forall ((x %s)) (! (= (%s (%s x)) x) :pattern ((%s x)))))", fc.sortOf(from), g, f, f))
				fc.addAxiom(g, fmt.Sprintf("(assert (forall ((x %s)) (! (= (%s (%s x)) x) :pattern ((%s x)))))", fc.sortOf(to), f, g, g))
			}
			return Val{T: app(f, v.T), Ty: to}
		}
	}
	if isString(from) || isString(to) {
		f := sym("conv$" + fc.typeName(from) + "$" + fc.typeName(to))
		fc.declareOnce(f, fmt.Sprintf("(declare-fun %s (%s) %s)", f, fc.sortOf(from), fc.sortOf(to)))
		fc.dropped["conversion "+from.String()+"->"+to.String()+" (uninterpreted)"] = true
		return Val{T: app(f, v.T), Ty: to}
	}
	fc.fail(pos, "unsupported conversion %s -> %s", from, to)
	return Val{}
}

// box wraps a concrete value into the interface sort.
func (fc *FnCtx) box(v Val, iface types.Type) Val {
	fc.ifaceSort()
	if isUntyped(v.Ty) {
		v = fc.coerce(v, types.Default(v.Ty))
	}
	if _, isTP := v.Ty.(*types.TypeParam); !isTP {
		if _, ok := v.Ty.Underlying().(*types.Interface); ok {
			return Val{T: v.T, Ty: iface}
		}
	}
	tag := fc.typeTag(v.Ty)
	s := fc.sortOf(v.Ty)
	tn := fc.typeName(v.Ty)
	bx, ux := sym("box$"+tn), sym("unbox$"+tn)
	if !fc.declared[bx] {
		fc.declared[bx] = true
		fc.addPre(fmt.Sprintf("(declare-fun %s (%s) Iface)", bx, s))
		fc.addPre(fmt.Sprintf("(declare-fun %s (Iface) %s)", ux, s))
		fc.addAxiom(bx, fmt.Sprintf("(assert (forall ((x %s)) (! (and (= (%s (%s x)) x) (= (iface.tag (%s x)) %d)) :pattern ((%s x)))))", s, ux, bx, bx, tag, bx))
		fc.addAxiom(ux, fmt.Sprintf("(assert (forall ((i Iface)) (! (=> (= (iface.tag i) %d) (= (%s (%s i)) i)) :pattern ((%s i)))))", tag, bx, ux, ux))
	}
	return Val{T: app(bx, v.T), Ty: iface}
}

func (fc *FnCtx) unbox(v Val, to types.Type) Val {
	fc.box(fc.zero(to), v.Ty) // ensure declarations
	return Val{T: app(sym("unbox$"+fc.typeName(to)), v.T), Ty: to}
}

func (fc *FnCtx) typeTag(t types.Type) int {
	n := fc.typeName(t)
	if id, ok := fc.typeTags[n]; ok {
		return id
	}
	id := len(fc.typeTags) + 1
	fc.typeTags[n] = id
	return id
}

// opaqueDivFn: signed 64-bit division by a positive constant as an uninterpreted function with the
// axioms the proofs need (monotone; sandwiched for non-negative arguments). Bit-blasting a 64-bit
// divider defeats all three solvers (120 s, no answer); the axioms are facts of truncating division
// and are listed as a trusted arithmetic lemma in the evidence.
func (fc *FnCtx) opaqueDivFn(k *big.Int) string {
	fn := sym("sdiv$" + k.String())
	if !fc.declared[fn] {
		fc.declared[fn] = true
		fc.externsUsed["arithmetic lemma (trusted): signed 64-bit division by "+k.String()+" is monotone, and 0 <= x/"+k.String()+" <= x for x >= 0; (x/k)*k <= x for x >= 0"] = true
		fc.addPre(fmt.Sprintf("(declare-fun %s ((_ BitVec 64)) (_ BitVec 64))", fn))
		fc.addAxiom(fn, fmt.Sprintf("(assert (forall ((a (_ BitVec 64)) (b (_ BitVec 64))) (! (=> (bvsle a b) (bvsle (%s a) (%s b))) :pattern ((%s a) (%s b)))))", fn, fn, fn, fn))
		fc.addAxiom(fn, fmt.Sprintf("(assert (forall ((a (_ BitVec 64))) (! (=> (bvsle (_ bv0 64) a) (and (bvsle (_ bv0 64) (%s a)) (bvsle (%s a) a))) :pattern ((%s a)))))", fn, fn, fn))
	}
	return fn
}

// bvToInt: the mathematical value of a machine integer held in a bit-vector.
func (fc *FnCtx) bvToInt(t string, ty types.Type) string {
	w := intWidth(ty)
	if isUnsigned(ty) {
		fn := fmt.Sprintf("ubv2int%d", w)
		if fc.cs == nil || !fc.cs.IndexElt {
			fc.declareOnce(fn, fmt.Sprintf("(define-fun %s ((x (_ BitVec %d))) Int (bv2nat x))", fn, w))
			return app(fn, t)
		}
		if !fc.declared[fn] {
			// an uninterpreted function with its definition as a (lazily instantiated) axiom: as a define-fun
			// every occurrence exposes bv2nat to the solvers' rewriters, and bv2nat(int2bv(n)) goals that a
			// stated lemma settles at once time out
			fc.declared[fn] = true
			m := new(big.Int).Lsh(big.NewInt(1), uint(w))
			fc.addPre(fmt.Sprintf("(declare-fun %s ((_ BitVec %d)) Int)", fn, w))
			fc.addAxiom(fn, fmt.Sprintf("(assert (forall ((x (_ BitVec %d))) (! (= (%s x) (bv2nat x)) :pattern ((%s x)))))", w, fn, fn))
			fc.addAxiom(fn, fmt.Sprintf("(assert (forall ((x (_ BitVec %d))) (! (and (<= 0 (%s x)) (< (%s x) %s)) :pattern ((%s x)))))", w, fn, fn, m.String(), fn))
		}
		return app(fn, t)
	}
	fn := fmt.Sprintf("sbv2int%d", w)
	m := new(big.Int).Lsh(big.NewInt(1), uint(w))
	if !fc.declared[fn] {
		fc.declared[fn] = true
		fc.addPre(fmt.Sprintf("(declare-fun %s ((_ BitVec %d)) Int)", fn, w))
		h := new(big.Int).Rsh(m, 1)
		maxS := new(big.Int).Sub(h, big.NewInt(1))
		// definition (expensive: bit expansion) plus cheap consequences that make most proofs avoid it
		fc.addAxiom(fn, fmt.Sprintf("(assert (forall ((x (_ BitVec %d))) (! (= (%s x) (ite (bvslt x (_ bv0 %d)) (- (bv2nat x) %s) (bv2nat x))) :pattern ((%s x)))))", w, fn, w, m.String(), fn))
		fc.addAxiom(fn, fmt.Sprintf("(assert (forall ((x (_ BitVec %d))) (! (and (<= (- %s) (%s x)) (<= (%s x) %s)) :pattern ((%s x)))))", w, h.String(), fn, fn, maxS.String(), fn))
		fc.addAxiom(fn, fmt.Sprintf("(assert (forall ((x (_ BitVec %d))) (! (=> (bvslt x %s) (= (%s (bvadd x (_ bv1 %d))) (+ (%s x) 1))) :pattern ((%s (bvadd x (_ bv1 %d)))))))", w, bvLit(maxS, w), fn, w, fn, fn, w))
		fc.addAxiom(fn, fmt.Sprintf("(assert (forall ((x (_ BitVec %d))) (! (=> (bvsgt x %s) (= (%s (bvsub x (_ bv1 %d))) (- (%s x) 1))) :pattern ((%s (bvsub x (_ bv1 %d)))))))", w, bvLit(new(big.Int).Neg(h), w), fn, w, fn, fn, w))
		if fc.contract != nil && fc.contract.Opts["int2bv-inverse"] != "" {
			// `opt int2bv-inverse`: converting the exact value of a signed machine integer back to its width gives the
			// integer itself (a theorem of two's complement arithmetic that the solvers do not find through the
			// uninterpreted value function; stated as an instance schema, listed as an arithmetic lemma)
			fc.externsUsed[fmt.Sprintf("arithmetic lemma (trusted): int2bv_%d(value of a signed %d-bit integer x) == x", w, w)] = true
			fc.addAxiom(fn, fmt.Sprintf("(assert (forall ((x (_ BitVec %d))) (! (= ((_ int2bv %d) (%s x)) x) :pattern ((%s x)))))", w, w, fn, fn))
		}
	}
	return app(fn, t)
}

// peelBvToInt recognises (sbv2intW x) / (bv2nat x) produced by bvToInt.
func peelBvToInt(t string) (inner string, width int, signed bool, ok bool) {
	if (strings.HasPrefix(t, "(sbv2int") || strings.HasPrefix(t, "(ubv2int")) && strings.HasSuffix(t, ")") {
		signed := t[1] == 's'
		rest := t[len("(sbv2int"):]
		i := strings.IndexByte(rest, ' ')
		if i > 0 {
			w := 0
			fmt.Sscan(rest[:i], &w)
			in := rest[i+1 : len(rest)-1]
			if w > 0 && (balanced(in) || isAtomic(in)) {
				return in, w, signed, true
			}
		}
	}
	return "", 0, false, false
}

// int2bvTerm converts an Int term to a bit-vector of width w. int2bv is a ring homomorphism modulo 2^w,
// so it is pushed through +, -, * and integer literals; int(x) of a bit-vector x collapses to a resize of x.
func int2bvTerm(t string, w int) string {
	t = strings.TrimSpace(t)
	if inner, iw, signed, ok := peelBvToInt(t); ok {
		switch {
		case iw == w:
			return inner
		case iw > w:
			return app(fmt.Sprintf("(_ extract %d 0)", w-1), inner)
		case !signed:
			return app(fmt.Sprintf("(_ zero_extend %d)", w-iw), inner)
		default:
			return app(fmt.Sprintf("(_ sign_extend %d)", w-iw), inner)
		}
	}
	if n, ok := new(big.Int).SetString(t, 10); ok {
		return bvLit(n, w)
	}
	if strings.HasPrefix(t, "(") && strings.HasSuffix(t, ")") {
		parts := splitSx(t[1 : len(t)-1])
		if len(parts) >= 2 {
			switch parts[0] {
			case "+", "*":
				op := map[string]string{"+": "bvadd", "*": "bvmul"}[parts[0]]
				var as []string
				for _, p := range parts[1:] {
					as = append(as, int2bvTerm(p, w))
				}
				if len(as) == 1 {
					return as[0]
				}
				return app(op, as...)
			case "-":
				if len(parts) == 2 {
					return app("bvneg", int2bvTerm(parts[1], w))
				}
				r := int2bvTerm(parts[1], w)
				for _, p := range parts[2:] {
					r = app("bvsub", r, int2bvTerm(p, w))
				}
				return r
			}
		}
	}
	return fmt.Sprintf("((_ int2bv %d) %s)", w, t)
}

// splitSx splits the inside of an s-expression into its top-level items.
func splitSx(s string) []string {
	var out []string
	depth, start := 0, -1
	for i := 0; i < len(s); i++ {
		c := s[i]
		switch {
		case c == '(':
			if depth == 0 && start < 0 {
				start = i
			}
			depth++
		case c == ')':
			depth--
			if depth == 0 {
				out = append(out, s[start:i+1])
				start = -1
			}
		case c == ' ' || c == '\n' || c == '\t':
			if depth == 0 && start >= 0 {
				out = append(out, s[start:i])
				start = -1
			}
		case c == '|':
			if depth == 0 && start < 0 {
				start = i
			}
			j := strings.IndexByte(s[i+1:], '|')
			if j >= 0 {
				i += j + 1
			}
		default:
			if depth == 0 && start < 0 {
				start = i
			}
		}
	}
	if start >= 0 {
		out = append(out, s[start:])
	}
	return out
}
