package main

// Reader for contract files: comment-only Go files in /repo guarded by the build tag `verif`
// (lines starting with //@ or // @) and extern spec files in /verif/extern (same syntax without
// the comment prefix).

import (
	"bufio"
	"fmt"
	"os"
	"regexp"
	"strconv"
	"strings"
)

type Clause struct {
	Needs  []string // `#label(a,b)`: the only labelled facts this obligation needs (strict context)
	Strict bool
	Only  string // for `use [a,b] ...`: labels of the obligations this lemma instance is for
	Label string
	Text  string
	E     *SExpr
	File  string
	Line  int
}

type LoopSpec struct {
	Ordinal    int
	Invariants []*Clause
	Uses       []*Clause
	Exits      []*Clause // facts asserted at every way out of the loop (each break / normal exit separately)
	Modifies   []*Clause // extra heap regions to havoc (beyond the syntactic ones)
}

type Param struct {
	Name string
	Type string
}

type PureFn struct {
	Name   string
	Params []Param
	Ret    string
	Body   *SExpr // nil => opaque (uninterpreted)
	Text   string
	File   string
	Line   int
}

type Lemma struct {
	Name     string
	Params   []Param
	Requires []*Clause
	Ensures  []*Clause
	Uses     []*Clause
	Trusted  string // non-empty: not proved here, reason given (listed as assumption)
	Cases    string // "x in lo..hi": split proof by enumerating an integer parameter
	Reveal   map[string]string // opaque function -> defining pure function (for this proof only)
	Auto     string            // non-empty: after being proved, available everywhere as a quantified axiom with these triggers
	Props    []string
	File     string
	Line     int
}

type Contract struct {
	Key          string // "Recv.Name" / "Name" (repo) or "pkg/path.Recv.Name" (extern)
	ParamNames   []string
	Requires     []*Clause
	Ensures      []*Clause
	EnsuresPanic []*Clause
	Modifies     []*Clause
	Uses         []*Clause
	Covers       []*Clause
	Loops        map[int]*LoopSpec
	Arith        string
	MayPanic     bool
	NoPanic      bool
	Extern       bool
	Trusted      string
	Atomic       bool
	Inline       bool   // callers execute the body instead of using the contract (small private helpers)
	Opts         map[string]string
	AtRelease    []GhostUpdate // ghost assignments performed right before every monitor release in this function
	AtLock       []*Clause     // assumed right after every monitor Lock in this function: what the caller's own earlier operations guarantee (e.g. it still holds what it acquired); listed as assumptions
	AtUnlock     []*Clause     // action specification: two-state predicates (old = start of the critical section) asserted at every monitor release in this function
	LockIs       map[string]*SExpr // parameter name -> spec expression X.f: the *sync.Mutex parameter is the mutex field f of X
	AfterCall    map[string][]GhostUpdate // callee name -> ghost assignments performed right after calls to it (`result` = its result)
	Props        []string
	File         string
	Line         int
}

// TableSpec: `table T[i] = expr for guard` — reads of the package-level array T are replaced by expr
// (with the obligation guard on the index, stated in the index expression's own type).
type TableSpec struct {
	Name, Var string
	Value     *SExpr
	Guard     *SExpr
	Text      string
}

type GhostUpdate struct {
	Name string
	E    *SExpr
	Text string
}

type CondDecl struct {
	Type, Field, MuField string
}

type Guarded struct {
	Type, Field, MuType, MuField string
	Via                          string // ghost field of Type pointing to the object that owns the mutex (`guarded T.f by U.mu via g`)
}

type Monitor struct {
	Type, MuField string
	Inv           []*Clause
	Assume        []*Clause // assumed at acquire, never proved (listed as assumptions)
	Havoc         []string // extra heap regions havocked at Lock
}

type ContractSet struct {
	Arith     string
	Funcs     map[string]*Contract
	Pures     map[string]*PureFn
	Lemmas    map[string]*Lemma
	LemmaOrd  []string
	Ghosts    map[string]string // ghost global name -> type text
	GhostFlds map[string]string // "T.f" -> type text (ghost fields)
	IndexElt  bool
	GhostDefault map[string]string // "T.f" -> spec expression: value for a zero-initialised object
	Guarded   []Guarded
	Monitors  []*Monitor
	TypeInvs  map[string][]*Clause
	Conds     []CondDecl // cond T.f uses T.mu
	Blocking  []string   // "T.f": mutexes whose Lock may block for long; no monitor mutex may be held when they are acquired
	Tables    map[string]*TableSpec // package-level constant lookup tables
	OpaqueDiv map[string]bool // divisors for which signed division is abstracted (axiomatised)
	PureVars  map[string]bool // func-typed vars assumed side-effect free
	Assumes   []string        // free-text assumptions recorded by the file
	Files     []string
	AssumeCnt int
}

func NewContractSet() *ContractSet {
	return &ContractSet{Funcs: map[string]*Contract{}, Pures: map[string]*PureFn{}, Lemmas: map[string]*Lemma{},
		Ghosts: map[string]string{}, GhostFlds: map[string]string{}, GhostDefault: map[string]string{}, TypeInvs: map[string][]*Clause{}, PureVars: map[string]bool{}, OpaqueDiv: map[string]bool{}, Tables: map[string]*TableSpec{}}
}

var clauseKW = map[string]bool{"arith": true, "ghost": true, "pure": true, "opaque": true, "lemma": true, "func": true,
	"requires": true, "ensures": true, "ensures_panic": true, "modifies": true, "loop": true, "invariant": true,
	"use": true, "guarded": true, "monitor": true, "typeinv": true, "maypanic": true, "nopanic": true, "trusted": true,
	"purevar": true, "cover": true, "cases": true, "assumption": true, "property": true, "atomic": true, "inline": true,
	"havoc": true, "ghostfield": true, "opt": true, "end": true, "opaquediv": true, "reveal": true, "auto": true, "table": true, "exit": true, "cond": true, "assume": true, "atrelease": true, "blocking": true, "index": true, "atunlock": true, "atlock": true, "lockis": true, "aftercall": true}

type rawLine struct {
	text string
	line int
}

// logicalLines strips the comment prefix and joins continuation lines.
func logicalLines(path string, commentOnly bool) ([]rawLine, error) {
	f, err := os.Open(path)
	if err != nil {
		return nil, err
	}
	defer f.Close()
	var out []rawLine
	sc := bufio.NewScanner(f)
	sc.Buffer(make([]byte, 1<<20), 1<<20)
	n := 0
	for sc.Scan() {
		n++
		l := sc.Text()
		if commentOnly {
			t := strings.TrimSpace(l)
			if strings.HasPrefix(t, "//@") {
				l = t[3:]
			} else if strings.HasPrefix(t, "// @") {
				l = t[4:]
			} else {
				continue
			}
		}
		// strip trailing comment introduced by " // " (not inside strings)
		if i := strings.Index(l, " // "); i >= 0 && !strings.Contains(l[:i], "\"") {
			l = l[:i]
		}
		t := strings.TrimSpace(l)
		if t == "" || (!commentOnly && strings.HasPrefix(t, "#")) {
			continue
		}
		first := t
		if i := strings.IndexAny(t, " \t("); i >= 0 {
			first = t[:i]
		}
		if !clauseKW[first] && len(out) > 0 {
			out[len(out)-1].text += " " + t
			continue
		}
		out = append(out, rawLine{t, n})
	}
	return out, sc.Err()
}

var paramRe = regexp.MustCompile(`^\s*([A-Za-z_][A-Za-z0-9_]*)\s+(.+?)\s*$`)

func parseParams(s string) ([]Param, error) {
	s = strings.TrimSpace(s)
	if s == "" {
		return nil, nil
	}
	var ps []Param
	for _, part := range strings.Split(s, ",") {
		m := paramRe.FindStringSubmatch(part)
		if m == nil {
			return nil, fmt.Errorf("bad parameter %q", part)
		}
		ps = append(ps, Param{m[1], m[2]})
	}
	return ps, nil
}

func mkClause(text, file string, line int) (*Clause, error) {
	c := &Clause{File: file, Line: line}
	text = strings.TrimSpace(text)
	if strings.HasPrefix(text, "#") {
		i := strings.IndexAny(text, " \t")
		if i < 0 {
			return nil, fmt.Errorf("%s:%d: label without expression", file, line)
		}
		c.Label = text[1:i]
		if j := strings.Index(c.Label, "("); j >= 0 {
			// #label(need1,need2) — may contain no spaces
			if !strings.HasSuffix(c.Label, ")") {
				return nil, fmt.Errorf("%s:%d: bad label %q (write #name(a,b) without spaces)", file, line, c.Label)
			}
			for _, n := range strings.Split(c.Label[j+1:len(c.Label)-1], ",") {
				if n = strings.TrimSpace(n); n != "" {
					c.Needs = append(c.Needs, n)
				}
			}
			c.Strict = true
			c.Label = c.Label[:j]
		}
		text = strings.TrimSpace(text[i:])
	}
	c.Text = text
	e, err := ParseSpec(text)
	if err != nil {
		return nil, fmt.Errorf("%s:%d: %v", file, line, err)
	}
	c.E = e
	return c, nil
}

// splitTop splits at top-level commas (outside parens/brackets).
func splitTop(s string) []string {
	var out []string
	depth := 0
	start := 0
	for i, c := range s {
		switch c {
		case '(', '[', '{':
			depth++
		case ')', ']', '}':
			depth--
		case ',':
			if depth == 0 {
				out = append(out, strings.TrimSpace(s[start:i]))
				start = i + 1
			}
		}
	}
	if strings.TrimSpace(s[start:]) != "" {
		out = append(out, strings.TrimSpace(s[start:]))
	}
	return out
}

func (cs *ContractSet) Load(path string, commentOnly bool) error {
	lines, err := logicalLines(path, commentOnly)
	if err != nil {
		return err
	}
	cs.Files = append(cs.Files, path)
	var curFn *Contract
	var curLoop *LoopSpec
	var curLemma *Lemma
	var curMon *Monitor
	var fileProps []string
	fail := func(l rawLine, f string, a ...interface{}) error {
		return fmt.Errorf("%s:%d: %s", path, l.line, fmt.Sprintf(f, a...))
	}
	for _, l := range lines {
		kw := l.text
		rest := ""
		if i := strings.IndexAny(l.text, " \t"); i >= 0 {
			kw, rest = l.text[:i], strings.TrimSpace(l.text[i:])
		}
		switch kw {
		case "arith":
			if curFn != nil {
				curFn.Arith = rest
			} else {
				cs.Arith = rest
			}
		case "index":
			// `index elt`: slice element reads s[i] become elt(content, offset, i) applications (see FnCtx.sliceElem)
			cs.IndexElt = strings.TrimSpace(rest) == "elt"
		case "property":
			ps := strings.Fields(strings.ReplaceAll(rest, ",", " "))
			if curFn != nil {
				curFn.Props = ps
			} else if curLemma != nil {
				curLemma.Props = ps
			} else {
				fileProps = ps
			}
		case "ghost":
			f := strings.Fields(rest)
			if len(f) < 2 {
				return fail(l, "ghost name type")
			}
			cs.Ghosts[f[0]] = strings.Join(f[1:], " ")
		case "ghostfield":
			f := strings.Fields(rest)
			if len(f) < 2 {
				return fail(l, "ghostfield T.f type")
			}
			ty := strings.Join(f[1:], " ")
			if k := strings.Index(ty, "="); k >= 0 {
				cs.GhostDefault[f[0]] = strings.TrimSpace(ty[k+1:])
				ty = strings.TrimSpace(ty[:k])
			}
			cs.GhostFlds[f[0]] = ty
		case "purevar":
			for _, v := range strings.Fields(strings.ReplaceAll(rest, ",", " ")) {
				cs.PureVars[v] = true
			}
		case "table":
			// table name[i] = expr for guard
			m := regexp.MustCompile(`^(\w+)\[(\w+)\]\s*=\s*(.+?)\s+for\s+(.+)$`).FindStringSubmatch(rest)
			if m == nil {
				return fail(l, "table name[i] = expr for guard")
			}
			ve, err := ParseSpec(m[3])
			if err != nil {
				return fail(l, "%v", err)
			}
			ge, err := ParseSpec(m[4])
			if err != nil {
				return fail(l, "%v", err)
			}
			cs.Tables[m[1]] = &TableSpec{Name: m[1], Var: m[2], Value: ve, Guard: ge, Text: rest}
			cs.AssumeCnt++
		case "opaquediv":
			for _, v := range strings.Fields(rest) {
				cs.OpaqueDiv[v] = true
			}
			cs.AssumeCnt++
		case "assumption":
			cs.Assumes = append(cs.Assumes, rest)
		case "pure", "opaque":
			curFn, curLoop, curLemma, curMon = nil, nil, nil, nil
			// name(params) ret [= body]
			i := strings.Index(rest, "(")
			j := matchParen(rest, i)
			if i < 0 || j < 0 {
				return fail(l, "bad pure declaration")
			}
			pf := &PureFn{Name: strings.TrimSpace(rest[:i]), File: path, Line: l.line, Text: rest}
			pf.Params, err = parseParams(rest[i+1 : j])
			if err != nil {
				return fail(l, "%v", err)
			}
			tail := strings.TrimSpace(rest[j+1:])
			if k := strings.Index(tail, "="); k >= 0 && kw == "pure" {
				pf.Ret = strings.TrimSpace(tail[:k])
				pf.Body, err = ParseSpec(tail[k+1:])
				if err != nil {
					return fail(l, "%v", err)
				}
			} else {
				pf.Ret = tail
			}
			cs.Pures[pf.Name] = pf
		case "lemma":
			curFn, curLoop, curMon = nil, nil, nil
			i := strings.Index(rest, "(")
			j := matchParen(rest, i)
			if i < 0 || j < 0 {
				return fail(l, "bad lemma declaration")
			}
			lm := &Lemma{Name: strings.TrimSpace(rest[:i]), File: path, Line: l.line, Props: fileProps}
			lm.Params, err = parseParams(rest[i+1 : j])
			if err != nil {
				return fail(l, "%v", err)
			}
			cs.Lemmas[lm.Name] = lm
			cs.LemmaOrd = append(cs.LemmaOrd, lm.Name)
			curLemma = lm
		case "func":
			curLoop, curLemma, curMon = nil, nil, nil
			// `func extern pkg.Recv.Name(params)`: a package-local (assumed) contract for a function outside the
			// module; it overrides the one in /verif/extern for calls made from this package only
			localExtern := false
			if strings.HasPrefix(rest, "extern ") {
				localExtern = true
				rest = strings.TrimSpace(rest[len("extern "):])
			}
			key := rest
			var pn []string
			if i := strings.Index(rest, "("); i >= 0 {
				j := matchParen(rest, i)
				if j < 0 {
					return fail(l, "bad func header")
				}
				key = strings.TrimSpace(rest[:i])
				for _, p := range splitTop(rest[i+1 : j]) {
					pn = append(pn, strings.Fields(p)[0])
				}
			}
			if localExtern {
				key = "extern " + key
			}
			if _, dup := cs.Funcs[key]; dup {
				return fail(l, "duplicate contract for %s", key)
			}
			curFn = &Contract{Key: key, ParamNames: pn, Loops: map[int]*LoopSpec{}, File: path, Line: l.line, Extern: !commentOnly || localExtern, Props: fileProps, Opts: map[string]string{}}
			cs.Funcs[key] = curFn
		case "end":
			curFn, curLoop, curLemma, curMon = nil, nil, nil, nil
		case "loop":
			if curFn == nil {
				return fail(l, "loop outside func")
			}
			n, err := strconv.Atoi(strings.Fields(rest)[0])
			if err != nil {
				return fail(l, "loop ordinal: %v", err)
			}
			curLoop = &LoopSpec{Ordinal: n}
			curFn.Loops[n] = curLoop
		case "assume":
			if curMon == nil {
				return fail(l, "assume is only allowed inside a monitor block")
			}
			c, err := mkClause(rest, path, l.line)
			if err != nil {
				return err
			}
			curMon.Assume = append(curMon.Assume, c)
			cs.AssumeCnt++
			cs.Assumes = append(cs.Assumes, "assumed at every lock acquisition of "+curMon.Type+"."+curMon.MuField+": "+c.Text)
		case "exit":
			if curLoop == nil {
				return fail(l, "exit outside loop")
			}
			c, err := mkClause(rest, path, l.line)
			if err != nil {
				return err
			}
			curLoop.Exits = append(curLoop.Exits, c)
		case "requires", "ensures", "ensures_panic", "invariant", "cover":
			c, err := mkClause(rest, path, l.line)
			if err != nil {
				return err
			}
			switch {
			case kw == "invariant" && curMon != nil:
				curMon.Inv = append(curMon.Inv, c)
			case kw == "invariant":
				if curLoop == nil {
					return fail(l, "invariant outside loop")
				}
				curLoop.Invariants = append(curLoop.Invariants, c)
			case curLemma != nil && kw == "requires":
				curLemma.Requires = append(curLemma.Requires, c)
			case curLemma != nil && kw == "ensures":
				curLemma.Ensures = append(curLemma.Ensures, c)
			case curFn == nil:
				return fail(l, "%s outside func/lemma", kw)
			case kw == "requires":
				curFn.Requires = append(curFn.Requires, c)
			case kw == "ensures":
				curFn.Ensures = append(curFn.Ensures, c)
			case kw == "ensures_panic":
				curFn.EnsuresPanic = append(curFn.EnsuresPanic, c)
			case kw == "cover":
				curFn.Covers = append(curFn.Covers, c)
			}
		case "modifies", "use", "havoc":
			only := ""
			if kw == "use" && strings.HasPrefix(rest, "[") {
				j := strings.Index(rest, "]")
				if j < 0 {
					return fail(l, "use [labels] ...")
				}
				only = strings.TrimSpace(rest[1:j])
				rest = strings.TrimSpace(rest[j+1:])
			}
			for _, part := range splitTop(rest) {
				c, err := mkClause(part, path, l.line)
				if err != nil {
					return err
				}
				c.Only = only
				switch {
				case kw == "havoc" && curMon != nil:
					curMon.Havoc = append(curMon.Havoc, part)
				case kw == "use" && curLoop != nil:
					curLoop.Uses = append(curLoop.Uses, c)
				case kw == "use" && curLemma != nil:
					curLemma.Uses = append(curLemma.Uses, c)
				case kw == "use" && curFn != nil:
					curFn.Uses = append(curFn.Uses, c)
				case kw == "modifies" && curLoop != nil:
					curLoop.Modifies = append(curLoop.Modifies, c)
				case kw == "modifies" && curFn != nil:
					curFn.Modifies = append(curFn.Modifies, c)
				default:
					return fail(l, "%s outside func", kw)
				}
			}
		case "maypanic":
			if curFn == nil {
				return fail(l, "maypanic outside func")
			}
			curFn.MayPanic = true
		case "nopanic":
			if curFn == nil {
				return fail(l, "nopanic outside func")
			}
			curFn.NoPanic = true
		case "atomic":
			if curFn != nil {
				curFn.Atomic = true
			}
		case "inline":
			if curFn != nil {
				curFn.Inline = true
			}
		case "opt":
			if curFn == nil {
				return fail(l, "opt outside func")
			}
			f := strings.SplitN(rest, " ", 2)
			v := "true"
			if len(f) > 1 {
				v = strings.TrimSpace(f[1])
			}
			curFn.Opts[f[0]] = v
		case "trusted":
			if rest == "" {
				rest = "trusted"
			}
			if curLemma != nil {
				curLemma.Trusted = rest
			} else if curFn != nil {
				curFn.Trusted = rest
			}
			cs.AssumeCnt++
		case "reveal":
			if curLemma == nil {
				return fail(l, "reveal outside lemma")
			}
			f := strings.Split(rest, "=")
			if len(f) != 2 {
				return fail(l, "reveal f = g")
			}
			if curLemma.Reveal == nil {
				curLemma.Reveal = map[string]string{}
			}
			curLemma.Reveal[strings.TrimSpace(f[0])] = strings.TrimSpace(f[1])
		case "auto":
			if curLemma == nil {
				return fail(l, "auto outside lemma")
			}
			curLemma.Auto = rest
			if rest == "" {
				curLemma.Auto = "-"
			}
		case "cases":
			if curLemma == nil {
				return fail(l, "cases outside lemma")
			}
			curLemma.Cases = rest
		case "guarded":
			// guarded T.f by T.mu
			f := strings.Fields(rest)
			if !(len(f) == 3 || (len(f) == 5 && f[3] == "via")) || f[1] != "by" {
				return fail(l, "guarded T.f by T.mu [via ghostfield]")
			}
			a := strings.SplitN(f[0], ".", 2)
			b := strings.SplitN(f[2], ".", 2)
			if len(a) != 2 || len(b) != 2 {
				return fail(l, "guarded T.f by T.mu")
			}
			g := Guarded{Type: a[0], Field: a[1], MuType: b[0], MuField: b[1]}
			if len(f) == 5 {
				g.Via = f[4]
			}
			cs.Guarded = append(cs.Guarded, g)
		case "blocking":
			cs.Blocking = append(cs.Blocking, strings.Fields(rest)...)
		case "atrelease":
			if curFn == nil {
				return fail(l, "atrelease outside func")
			}
			k := strings.Index(rest, "=")
			if k < 0 {
				return fail(l, "atrelease ghost = expr")
			}
			e, err := ParseSpec(rest[k+1:])
			if err != nil {
				return fail(l, "%v", err)
			}
			curFn.AtRelease = append(curFn.AtRelease, GhostUpdate{Name: strings.TrimSpace(rest[:k]), E: e, Text: rest})
		case "atunlock":
			if curFn == nil {
				return fail(l, "atunlock outside func")
			}
			c, err := mkClause(rest, path, l.line)
			if err != nil {
				return err
			}
			curFn.AtUnlock = append(curFn.AtUnlock, c)
		case "atlock":
			if curFn == nil {
				return fail(l, "atlock outside func")
			}
			c, err := mkClause(rest, path, l.line)
			if err != nil {
				return err
			}
			curFn.AtLock = append(curFn.AtLock, c)
			cs.AssumeCnt++
		case "lockis":
			// lockis mu X.f
			f := strings.SplitN(strings.TrimSpace(rest), " ", 2)
			if curFn == nil || len(f) != 2 {
				return fail(l, "lockis param X.f (inside func)")
			}
			e, err := ParseSpec(f[1])
			if err != nil || e.Kind != SField {
				return fail(l, "lockis param X.f")
			}
			if curFn.LockIs == nil {
				curFn.LockIs = map[string]*SExpr{}
			}
			curFn.LockIs[f[0]] = e
		case "aftercall":
			// aftercall callee lhs = expr
			f := strings.SplitN(strings.TrimSpace(rest), " ", 2)
			if curFn == nil || len(f) != 2 {
				return fail(l, "aftercall callee lhs = expr (inside func)")
			}
			if strings.HasPrefix(strings.TrimSpace(f[1]), "use ") {
				// aftercall callee use lemma(args): lemma instance right after the call (`result` = its first result)
				e, err := ParseSpec(strings.TrimSpace(strings.TrimSpace(f[1])[4:]))
				if err != nil {
					return fail(l, "%v", err)
				}
				if curFn.AfterCall == nil {
					curFn.AfterCall = map[string][]GhostUpdate{}
				}
				curFn.AfterCall[f[0]] = append(curFn.AfterCall[f[0]], GhostUpdate{Name: "use", E: e, Text: rest})
				break
			}
			k := strings.Index(f[1], "=")
			if k < 0 {
				return fail(l, "aftercall callee lhs = expr")
			}
			e, err := ParseSpec(f[1][k+1:])
			if err != nil {
				return fail(l, "%v", err)
			}
			if curFn.AfterCall == nil {
				curFn.AfterCall = map[string][]GhostUpdate{}
			}
			curFn.AfterCall[f[0]] = append(curFn.AfterCall[f[0]], GhostUpdate{Name: strings.TrimSpace(f[1][:k]), E: e, Text: rest})
		case "cond":
			// cond T.f uses T.mu
			f := strings.Fields(rest)
			if len(f) != 3 || f[1] != "uses" {
				return fail(l, "cond T.f uses T.mu")
			}
			a := strings.SplitN(f[0], ".", 2)
			b := strings.SplitN(f[2], ".", 2)
			if len(a) != 2 || len(b) != 2 || a[0] != b[0] {
				return fail(l, "cond T.f uses T.mu")
			}
			cs.Conds = append(cs.Conds, CondDecl{a[0], a[1], b[1]})
		case "monitor":
			curFn, curLoop, curLemma = nil, nil, nil
			a := strings.SplitN(strings.TrimSuffix(strings.TrimSpace(rest), ":"), ".", 2)
			if len(a) != 2 {
				return fail(l, "monitor T.mu")
			}
			curMon = &Monitor{Type: a[0], MuField: a[1]}
			cs.Monitors = append(cs.Monitors, curMon)
		case "typeinv":
			i := strings.Index(rest, ":")
			if i < 0 {
				return fail(l, "typeinv T: expr")
			}
			c, err := mkClause(rest[i+1:], path, l.line)
			if err != nil {
				return err
			}
			t := strings.TrimSpace(rest[:i])
			cs.TypeInvs[t] = append(cs.TypeInvs[t], c)
		default:
			return fail(l, "unknown clause %q", kw)
		}
	}
	return nil
}

func matchParen(s string, i int) int {
	if i < 0 || i >= len(s) {
		return -1
	}
	depth := 0
	for j := i; j < len(s); j++ {
		switch s[j] {
		case '(':
			depth++
		case ')':
			depth--
			if depth == 0 {
				return j
			}
		}
	}
	return -1
}
