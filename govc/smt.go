package main

// SMT-LIB2 term construction helpers, sort mapping for Go types, and the solver portfolio.

import (
	"bytes"
	"context"
	"fmt"
	"go/constant"
	"go/types"
	"math/big"
	"os"
	"os/exec"
	"path/filepath"
	"regexp"
	"strings"
	"sync"
	"time"
)

type Val struct {
	T  string         // SMT term ("" for an untyped constant not yet materialised)
	Ty types.Type     // Go type
	K  constant.Value // constant value when known
}

var symRe = regexp.MustCompile(`^[A-Za-z_.$@!~][A-Za-z0-9_.$@!~]*$`)

func sym(s string) string {
	r := strings.NewReplacer("/", ".", "*", "~", "[", "_", "]", "_", " ", "_", "{", "_", "}", "_", ",", "_", "(", "_", ")", "_", "|", "_", "\\", "_")
	s = r.Replace(s)
	if symRe.MatchString(s) {
		return s
	}
	return "|" + s + "|"
}

func app(f string, args ...string) string {
	if len(args) == 0 {
		return f
	}
	return "(" + f + " " + strings.Join(args, " ") + ")"
}

func and(xs ...string) string {
	var ys []string
	for _, x := range xs {
		if x == "true" || x == "" {
			continue
		}
		if x == "false" {
			return "false"
		}
		ys = append(ys, x)
	}
	switch len(ys) {
	case 0:
		return "true"
	case 1:
		return ys[0]
	}
	return app("and", ys...)
}

func or(xs ...string) string {
	var ys []string
	for _, x := range xs {
		if x == "false" || x == "" {
			continue
		}
		if x == "true" {
			return "true"
		}
		ys = append(ys, x)
	}
	switch len(ys) {
	case 0:
		return "false"
	case 1:
		return ys[0]
	}
	return app("or", ys...)
}

func not(x string) string {
	if x == "true" {
		return "false"
	}
	if x == "false" {
		return "true"
	}
	if strings.HasPrefix(x, "(not ") && strings.HasSuffix(x, ")") && balanced(x[5:len(x)-1]) {
		return x[5 : len(x)-1]
	}
	return app("not", x)
}

func balanced(s string) bool {
	d := 0
	for i, c := range s {
		switch c {
		case '(':
			d++
		case ')':
			d--
			if d < 0 {
				return false
			}
			if d == 0 && i != len(s)-1 {
				return false
			}
		case ' ':
			if d == 0 {
				return false
			}
		}
	}
	return d == 0
}

func implies(a, b string) string {
	if a == "true" {
		return b
	}
	if b == "true" {
		return "true"
	}
	if a == "false" {
		return "true"
	}
	return app("=>", a, b)
}

func ite(c, a, b string) string {
	if c == "true" {
		return a
	}
	if c == "false" {
		return b
	}
	if a == b {
		return a
	}
	return app("ite", c, a, b)
}

func bvLit(v *big.Int, w int) string {
	m := new(big.Int).Lsh(big.NewInt(1), uint(w))
	x := new(big.Int).Mod(v, m)
	if x.Sign() < 0 {
		x.Add(x, m)
	}
	return fmt.Sprintf("(_ bv%s %d)", x.String(), w)
}

func intLit(v *big.Int) string {
	if v.Sign() < 0 {
		return "(- " + new(big.Int).Neg(v).String() + ")"
	}
	return v.String()
}

func constBig(k constant.Value) *big.Int {
	k = constant.ToInt(k)
	if k.Kind() != constant.Int {
		return nil
	}
	if i, ok := constant.Int64Val(k); ok {
		return big.NewInt(i)
	}
	b, _ := new(big.Int).SetString(k.ExactString(), 10)
	return b
}

// ---- integer type helpers ----

func basicOf(t types.Type) *types.Basic {
	if t == nil {
		return nil
	}
	b, _ := t.Underlying().(*types.Basic)
	return b
}

func isInteger(t types.Type) bool {
	b := basicOf(t)
	return b != nil && b.Info()&types.IsInteger != 0
}
func isUntyped(t types.Type) bool {
	b := basicOf(t)
	return b != nil && b.Info()&types.IsUntyped != 0
}
func isUnsigned(t types.Type) bool {
	b := basicOf(t)
	return b != nil && b.Info()&types.IsUnsigned != 0
}
func isBool(t types.Type) bool {
	b := basicOf(t)
	return b != nil && b.Info()&types.IsBoolean != 0
}
func isString(t types.Type) bool {
	b := basicOf(t)
	return b != nil && b.Info()&types.IsString != 0
}
func isFloat(t types.Type) bool {
	b := basicOf(t)
	return b != nil && b.Info()&types.IsFloat != 0
}

func intWidth(t types.Type) int {
	b := basicOf(t)
	if b == nil {
		return 64
	}
	switch b.Kind() {
	case types.Int8, types.Uint8:
		return 8
	case types.Int16, types.Uint16:
		return 16
	case types.Int32, types.Uint32:
		return 32
	}
	return 64
}

func intRange(t types.Type) (lo, hi *big.Int) {
	w := uint(intWidth(t))
	if isUnsigned(t) {
		return big.NewInt(0), new(big.Int).Sub(new(big.Int).Lsh(big.NewInt(1), w), big.NewInt(1))
	}
	h := new(big.Int).Lsh(big.NewInt(1), w-1)
	return new(big.Int).Neg(h), new(big.Int).Sub(h, big.NewInt(1))
}

// ---- solver portfolio ----

type SolverResult struct {
	Status string // unsat | sat | unknown | timeout | error
	Solver string
	Secs   float64
	Output string
	All    map[string]string
}

type solverSpec struct {
	name string
	argv func(file string, timeoutS int, seed int) []string
}

var solvers = []solverSpec{
	{"z3-new-5.1.0", func(f string, t int, seed int) []string {
		return []string{"z3-new", fmt.Sprintf("-T:%d", t), fmt.Sprintf("smt.random_seed=%d", seed), fmt.Sprintf("sat.random_seed=%d", seed), f}
	}},
	{"cvc5-1.0.3", func(f string, t int, seed int) []string {
		return []string{"cvc5", fmt.Sprintf("--tlimit=%d", t*1000), "--produce-models", fmt.Sprintf("--seed=%d", seed), f}
	}},
	{"z3-4.8.12", func(f string, t int, seed int) []string {
		return []string{"z3", fmt.Sprintf("-T:%d", t), fmt.Sprintf("smt.random_seed=%d", seed), f}
	}},
}

func runOne(sp solverSpec, file string, timeoutS int, seed int, ctx context.Context) (string, string, float64) {
	argv := sp.argv(file, timeoutS, seed)
	cctx, cancel := context.WithTimeout(ctx, time.Duration(timeoutS+5)*time.Second)
	defer cancel()
	cmd := exec.CommandContext(cctx, argv[0], argv[1:]...)
	var out bytes.Buffer
	cmd.Stdout = &out
	cmd.Stderr = &out
	t0 := time.Now()
	_ = cmd.Run()
	secs := time.Since(t0).Seconds()
	o := out.String()
	first := ""
	for _, l := range strings.Split(o, "\n") {
		l = strings.TrimSpace(l)
		if l == "" || strings.HasPrefix(l, "WARNING") || strings.HasPrefix(l, "(warning") {
			continue
		}
		first = l
		break
	}
	switch first {
	case "unsat", "sat", "unknown":
		return first, o, secs
	case "timeout":
		return "timeout", o, secs
	}
	if cctx.Err() != nil {
		return "timeout", o, secs
	}
	if strings.Contains(o, "timeout") || strings.Contains(o, "interrupted") {
		return "timeout", o, secs
	}
	return "error", o, secs
}

// Solve runs the portfolio on one query. Stage 1: z3-new alone with a short budget (decides most
// goals in milliseconds); stage 2: all three solvers race with the full budget. In `agree` mode
// (thorough tier) all solvers run to completion and a sat/unsat disagreement is reported.
func Solve(file string, timeoutS int, seed int, agree bool) SolverResult {
	return SolveVariants([]string{file}, timeoutS, seed, agree)
}

// SolveVariants races every solver on every variant of the query. files[0] is the full query: only its
// sat/unsat answers are definitive; the other variants have fewer hypotheses, so only `unsat` counts.
func SolveVariants(files []string, timeoutS int, seed int, agree bool) SolverResult {
	file := files[0]
	res := SolverResult{All: map[string]string{}}
	t0 := time.Now()
	ctx, cancel := context.WithCancel(context.Background())
	defer cancel()
	type r struct {
		name, st, out string
	}
	n := 0
	ch := make(chan r, len(solvers)*len(files))
	for vi, f := range files {
		for _, sp := range solvers {
			sp, f, vi := sp, f, vi
			n++
			go func() {
				st, out, _ := runOne(sp, f, timeoutS, seed, ctx)
				name := sp.name
				if vi > 0 {
					name += "/sliced"
					if st != "unsat" {
						st = "unknown" // fewer hypotheses: only a proof means something
					}
				}
				ch <- r{name, st, out}
			}()
		}
	}
	_ = file
	best := r{st: "unknown"}
	// agree mode (thorough tier): after the first definitive answer the other solvers get a bounded extra time
	// to confirm or contradict it (a full timeout per solver per obligation would take hours on C08)
	var crossTimer <-chan time.Time
loop:
	for i := 0; i < n; i++ {
		var x r
		select {
		case x = <-ch:
		case <-crossTimer:
			cancel()
			break loop
		}
		if prev, ok := res.All[x.name]; !ok || prev == "timeout" || prev == "unknown" {
			res.All[x.name] = x.st
		}
		if x.st == "unsat" || x.st == "sat" {
			if best.st != "unsat" && best.st != "sat" {
				best = x
				if !agree {
					cancel()
					break loop
				}
				crossTimer = time.After(10 * time.Second)
			} else if best.st != x.st {
				best = r{x.name + "+" + best.name, "disagree", x.out + "\n---\n" + best.out}
			}
		} else if best.st != "unsat" && best.st != "sat" && best.st != "disagree" {
			if best.out == "" || x.st == "unknown" {
				best = r{x.name, x.st, x.out}
			}
		}
	}
	res.Status, res.Solver, res.Output, res.Secs = best.st, best.name, best.out, time.Since(t0).Seconds()
	return res
}

// ---- query files ----

var outMu sync.Mutex

func writeQuery(dir, name, text string) (string, error) {
	outMu.Lock()
	defer outMu.Unlock()
	if err := os.MkdirAll(dir, 0o755); err != nil {
		return "", err
	}
	fn := strings.NewReplacer("/", "_", "#", "_", "*", "P", "(", "_", ")", "_", " ", "_", "[", "_", "]", "_", "|", "_").Replace(name)
	if len(fn) > 180 {
		fn = fn[:180]
	}
	p := filepath.Join(dir, fn+".smt2")
	return p, os.WriteFile(p, []byte(text), 0o644)
}
