package main

// Calls: conversions, builtins, contract application (modular: callee body never inspected),
// in-place closures, sync primitives (monitor rule), frame checks.

import (
	"path/filepath"
	"fmt"
	"go/ast"
	"go/constant"
	"go/token"
	"go/types"
	"strings"

	"golang.org/x/tools/go/types/typeutil"
)

var constantOne = constant.MakeInt64(1)

type closure struct {
	lit *ast.FuncLit
	fc  *FnCtx
	// contract in force where the literal was evaluated (an inlined callee's own `inline` contract carries the loop
	// invariants of a closure it returns)
	contract *Contract
}

func (fc *FnCtx) evalCall(st *State, call *ast.CallExpr) []Val {
	info := fc.info()
	// conversion
	if tv, ok := info.Types[call.Fun]; ok && tv.IsType() {
		v := fc.eval1(st, call.Args[0])
		return []Val{fc.convertCode(st, v, tv.Type, call)}
	}
	fun := ast.Unparen(call.Fun)
	// builtin
	if id, ok := fun.(*ast.Ident); ok {
		if b, ok := info.ObjectOf(id).(*types.Builtin); ok {
			return fc.evalBuiltin(st, b.Name(), call)
		}
	}
	// closure invoked in place
	if lit, ok := fun.(*ast.FuncLit); ok {
		var args []Val
		for _, a := range call.Args {
			args = append(args, fc.eval1(st, a))
		}
		return fc.inlineFuncLit(st, lit, args, call.Pos())
	}
	// static callee
	if callee := typeutil.StaticCallee(info, call); callee != nil {
		return fc.callStatic(st, callee, call)
	}
	// interface method
	if sel, ok := fun.(*ast.SelectorExpr); ok {
		if s, ok := info.Selections[sel]; ok && s.Kind() == types.MethodVal {
			return fc.callInterface(st, sel, s, call)
		}
	}
	// value of function type
	return fc.callFuncValue(st, fun, call)
}

func (fc *FnCtx) convertCode(st *State, v Val, to types.Type, call *ast.CallExpr) Val {
	// string(bytes) / []byte(string) conversions are modelled with byte-wise axioms
	if s, ok := to.Underlying().(*types.Slice); ok && isString(v.Ty) && basicOf(s.Elem()) != nil && basicOf(s.Elem()).Kind() == types.Uint8 {
		if v.K != nil && v.T == "" {
			v = fc.coerce(v, tString)
		}
		n := app("gs.len", v.T)
		sl := Val{T: fc.define("slice", "Slice", fc.makeSliceUninit(st, s.Elem(), n, n)), Ty: to}
		if _, esort := fc.elemsKey(s.Elem()); !strings.Contains(esort, "BitVec 8") {
			// bytes are mathematical integers in this arithmetic mode: the content of the fresh slice is left
			// unspecified (an over-approximation; `arith mixed` gives the byte-wise definition)
			fc.dropped["[]byte(string): content of the converted slice not modelled in arith int"] = true
			return sl
		}
		a := app("select", fc.heapGet(st, "E$uint8", fmt.Sprintf("(Array Int (Array %s (_ BitVec 8)))", fc.I())), app("s-arr", sl.T))
		fc.assume(st, fmt.Sprintf("(forall ((i %s)) (! (=> (and %s %s) (= (select %s i) (gs.at %s i))) :pattern ((select %s i))))", fc.I(), fc.leIdx(fc.idxLit(0), "i"), fc.ltIdx("i", n), a, v.T, a))
		return sl
	}
	if isString(to) {
		if s, ok := v.Ty.Underlying().(*types.Slice); ok && basicOf(s.Elem()) != nil && basicOf(s.Elem()).Kind() == types.Uint8 {
			return fc.bytesToString(st, v, to)
		}
	}
	return fc.convert(v, to, call.Pos())
}

func (fc *FnCtx) makeSliceUninit(st *State, elem types.Type, ln, cp string) string {
	r := fc.allocRef(st, "slice")
	key, sort := fc.elemsKey(elem)
	fc.heapGet(st, key, sort)
	return app("mk-slice", r, fc.idxLit(0), ln, cp)
}

func (fc *FnCtx) evalBuiltin(st *State, name string, call *ast.CallExpr) []Val {
	switch name {
	case "len", "cap":
		v := fc.eval1(st, call.Args[0])
		switch t := v.Ty.Underlying().(type) {
		case *types.Slice:
			if name == "len" {
				return []Val{{T: app("s-len", v.T), Ty: tInt}}
			}
			return []Val{{T: app("s-cap", v.T), Ty: tInt}}
		case *types.Basic:
			if v.K != nil && v.T == "" {
				v = fc.coerce(v, tString)
			}
			return []Val{{T: app("gs.len", v.T), Ty: tInt}}
		case *types.Map:
			ck := "MC$" + fc.typeName(t.Key()) + "$" + fc.typeName(t.Elem())
			c := app("select", fc.heapGet(st, ck, "(Array Int Int)"), v.T)
			if fc.idxBV() {
				fc.fail(call.Pos(), "len(map) in bv mode")
			}
			fc.assume(st, app(">=", c, "0")) // a map has a non-negative number of entries
			return []Val{{T: c, Ty: tInt}}
		case *types.Array:
			return []Val{fc.constVal(constant.MakeInt64(t.Len()), tInt)}
		case *types.Chan:
			r := fc.fresh("chanlen", fc.I())
			return []Val{{T: r, Ty: tInt}}
		}
		fc.fail(call.Pos(), "len/cap of %s", v.Ty)
	case "make":
		ty := fc.typeOf(call)
		switch t := ty.Underlying().(type) {
		case *types.Slice:
			lv := fc.eval1(st, call.Args[1])
			ln := fc.toIdx(lv)
			cp := ln
			fc.assert(st, fc.leIdx(fc.idxLit(0), ln), "bounds", "make: len is non-negative", call.Pos())
			if len(call.Args) > 2 {
				cp = fc.toIdx(fc.eval1(st, call.Args[2]))
				fc.assert(st, fc.leIdx(ln, cp), "bounds", "make: len <= cap", call.Pos())
			}
			return []Val{{T: fc.define("slice", "Slice", fc.makeSlice(st, t.Elem(), ln, cp)), Ty: ty}}
		case *types.Map:
			for _, a := range call.Args[1:] {
				fc.eval1(st, a)
			}
			return []Val{{T: fc.makeMap(st, t), Ty: ty}}
		case *types.Chan:
			r := fc.allocRef(st, "chan")
			capT := "0"
			if len(call.Args) > 1 {
				cv := fc.eval1(st, call.Args[1])
				if cv.K != nil {
					capT = constBig(cv.K).String()
				} else {
					capT = ""
				}
			}
			if capT != "" {
				C := fc.heapGet(st, "$chancap", "(Array Int Int)")
				fc.heapSet(st, "$chancap", "(Array Int Int)", app("store", C, r, capT))
			}
			L := fc.heapGet(st, "$chanlen", "(Array Int Int)")
			fc.heapSet(st, "$chanlen", "(Array Int Int)", app("store", L, r, "0"))
			CC := fc.heapGet(st, "$chanclosed", "(Array Int Bool)")
			fc.heapSet(st, "$chanclosed", "(Array Int Bool)", app("store", CC, r, "false"))
			return []Val{{T: r, Ty: ty}}
		}
	case "new":
		ty := fc.typeOf(call)
		pt := ty.Underlying().(*types.Pointer)
		r := fc.allocRef(st, "new")
		if s, ok := pt.Elem().Underlying().(*types.Struct); ok {
			for j := 0; j < s.NumFields(); j++ {
				key := fc.fieldKey(pt.Elem(), s.Field(j).Name())
				sort := fmt.Sprintf("(Array Int %s)", fc.sortOf(s.Field(j).Type()))
				fc.heapSet(st, key, sort, app("store", fc.heapGet(st, key, sort), r, fc.zero(s.Field(j).Type()).T))
			}
		} else {
			key := "P$" + fc.typeName(pt.Elem())
			sort := fmt.Sprintf("(Array Int %s)", fc.sortOf(pt.Elem()))
			fc.heapSet(st, key, sort, app("store", fc.heapGet(st, key, sort), r, fc.zero(pt.Elem()).T))
		}
		return []Val{{T: r, Ty: ty}}
	case "delete":
		m := fc.eval1(st, call.Args[0])
		t := m.Ty.Underlying().(*types.Map)
		k := fc.evalTo(st, call.Args[1], t.Key())
		fc.mapDeleteCounted(st, m, k, t)
		return nil
	case "panic":
		v := fc.eval1(st, call.Args[0])
		fc.ifaceSort()
		pv := fc.assignConv(v, types.NewInterfaceType(nil, nil))
		ps := st.clone()
		ps.panick = "true"
		ps.panicV = pv.T
		fc.pendingPanics = append(fc.pendingPanics, ps)
		st.pc = "false"
		return nil
	case "recover":
		fc.ifaceSort()
		if st.deferDepth == 0 || st.callDepth != st.deferDepth {
			// not called directly by a deferred function: returns nil
			return []Val{{T: "iface.nil", Ty: types.NewInterfaceType(nil, nil)}}
		}
		p := orTrue(st.panick)
		pv := st.panicV
		if pv == "" {
			pv = "iface.nil"
		}
		r := ite(p, pv, "iface.nil")
		st.panick = "false"
		return []Val{{T: fc.define("recovered", "Iface", r), Ty: types.NewInterfaceType(nil, nil)}}
	case "copy":
		return fc.builtinCopy(st, call)
	case "append":
		return fc.builtinAppend(st, call)
	case "min", "max":
		a := fc.eval1(st, call.Args[0])
		for _, e := range call.Args[1:] {
			b := fc.eval1(st, e)
			a, b = fc.unify(a, b)
			lt := fc.binop(token.LSS, a, b, nil, call.Pos()).T
			if name == "min" {
				a = Val{T: ite(lt, a.T, b.T), Ty: a.Ty}
			} else {
				a = Val{T: ite(lt, b.T, a.T), Ty: a.Ty}
			}
		}
		return []Val{a}
	case "close":
		ch := fc.eval1(st, call.Args[0])
		C := fc.heapGet(st, "$chanclosed", "(Array Int Bool)")
		fc.assert(st, not(app("select", C, ch.T)), "close", "channel is closed at most once", call.Pos())
		fc.assert(st, not(app("=", ch.T, "0")), "nil", "close of nil channel", call.Pos())
		fc.heapSet(st, "$chanclosed", "(Array Int Bool)", app("store", C, ch.T, "true"))
		return nil
	case "print", "println":
		return nil
	}
	fc.fail(call.Pos(), "unsupported builtin %s", name)
	return nil
}

// copy(dst, src): memmove semantics, n = min(len(dst), len(src)).
func (fc *FnCtx) builtinCopy(st *State, call *ast.CallExpr) []Val {
	dst := fc.eval1(st, call.Args[0])
	src := fc.eval1(st, call.Args[1])
	dt := dst.Ty.Underlying().(*types.Slice)
	I := fc.I()
	es := fc.sortOf(dt.Elem())
	key, sort := fc.elemsKey(dt.Elem())
	E := fc.heapGet(st, key, sort)
	var srcLen string
	var srcAt func(i string) string
	if isString(src.Ty) {
		if src.K != nil && src.T == "" {
			src = fc.coerce(src, tString)
		}
		srcLen = app("gs.len", src.T)
		srcAt = func(i string) string { return app("gs.at", src.T, i) }
	} else {
		srcLen = app("s-len", src.T)
		sa := app("select", E, app("s-arr", src.T))
		srcAt = func(i string) string {
			if fc.cs != nil && fc.cs.IndexElt {
				// the source read in view form, so that quantified facts about the source's elements (patterns over elt) fire
				return app(fc.eltFn(dt.Elem()), sa, app("s-off", src.T), i)
			}
			return app("select", sa, fc.addIdx(app("s-off", src.T), i))
		}
	}
	n := fc.define("copyn", I, ite(fc.ltIdx(app("s-len", dst.T), srcLen), app("s-len", dst.T), srcLen))
	fc.checkFrameRange(st, dst, n, call.Pos())
	da := app("s-arr", dst.T)
	newInner := fc.fresh("copied", fmt.Sprintf("(Array %s %s)", I, es))
	oldInner := app("select", E, da)
	doff := app("s-off", dst.T)
	// forall j: if doff <= j < doff+n then new[j] = src[j-doff] (read from OLD heap) else new[j] = old[j]
	j := "j"
	inR := and(fc.leIdx(doff, j), fc.ltIdx(j, fc.addIdx(doff, n)))
	fc.assume(st, fmt.Sprintf("(forall ((j %s)) (! (= (select %s j) (ite %s %s (select %s j))) :pattern ((select %s j))))", I, newInner, inR, srcAt(fc.subIdx(j, doff)), oldInner, newInner))
	fc.heapSet(st, key, sort, app("store", E, da, newInner))
	return []Val{{T: n, Ty: tInt}}
}

// append(s, xs...): in place when capacity allows, else a fresh array with capacity >= needed.
func (fc *FnCtx) builtinAppend(st *State, call *ast.CallExpr) []Val {
	s := fc.eval1(st, call.Args[0])
	stt := s.Ty.Underlying().(*types.Slice)
	I := fc.I()
	es := fc.sortOf(stt.Elem())
	key, sort := fc.elemsKey(stt.Elem())
	var addN string
	var addAt func(E, i string) string
	if call.Ellipsis.IsValid() {
		x := fc.eval1(st, call.Args[1])
		if isString(x.Ty) {
			addN = app("gs.len", x.T)
			addAt = func(E, i string) string { return app("gs.at", x.T, i) }
		} else {
			addN = app("s-len", x.T)
			addAt = func(E, i string) string {
				if fc.cs != nil && fc.cs.IndexElt {
					return app(fc.eltFn(stt.Elem()), app("select", E, app("s-arr", x.T)), app("s-off", x.T), i)
				}
				return app("select", app("select", E, app("s-arr", x.T)), fc.addIdx(app("s-off", x.T), i))
			}
		}
	} else {
		var xs []Val
		for _, a := range call.Args[1:] {
			xs = append(xs, fc.evalTo(st, a, stt.Elem()))
		}
		addN = fc.idxLit(int64(len(xs)))
		addAt = func(E, i string) string {
			t := fc.zero(stt.Elem()).T
			for k := len(xs) - 1; k >= 0; k-- {
				t = ite(app("=", i, fc.idxLit(int64(k))), xs[k].T, t)
			}
			return t
		}
	}
	E := fc.heapGet(st, key, sort)
	ln := app("s-len", s.T)
	newLen := fc.define("applen", I, fc.addIdx(ln, addN))
	fits := fc.leIdx(newLen, app("s-cap", s.T))
	// fresh alternative
	r := fc.allocRef(st, "append")
	ncap := fc.fresh("appcap", I)
	fc.assume(st, fc.leIdx(newLen, ncap))
	resArr := ite(fits, app("s-arr", s.T), r)
	resOff := ite(fits, app("s-off", s.T), fc.idxLit(0))
	resCap := ite(fits, app("s-cap", s.T), ncap)
	res := fc.define("slice", "Slice", app("mk-slice", resArr, resOff, newLen, resCap))
	// contents of target inner array
	newInner := fc.fresh("appended", fmt.Sprintf("(Array %s %s)", I, es))
	oldInner := app("select", E, app("s-arr", s.T))
	j := "j"
	rel := fc.subIdx(j, resOff) // index relative to the result slice
	inOld := and(fc.leIdx(fc.idxLit(0), rel), fc.ltIdx(rel, ln))
	inNew := and(fc.leIdx(ln, rel), fc.ltIdx(rel, newLen))
	oldAt := app("select", oldInner, fc.addIdx(app("s-off", s.T), rel))
	if fc.cs != nil && fc.cs.IndexElt {
		oldAt = app(fc.eltFn(stt.Elem()), oldInner, app("s-off", s.T), rel)
	}
	keep := ite(fits, app("select", oldInner, j), fc.zero(stt.Elem()).T)
	body := ite(inOld, oldAt, ite(inNew, addAt(E, fc.subIdx(rel, ln)), keep))
	fc.assume(st, fmt.Sprintf("(forall ((j %s)) (! (= (select %s j) %s) :pattern ((select %s j))))", I, newInner, body, newInner))
	fc.heapSet(st, key, sort, app("store", E, resArr, newInner))
	return []Val{{T: res, Ty: s.Ty}}
}

// inlineFuncLit executes a closure body in place (shares the enclosing state).
func (fc *FnCtx) inlineFuncLit(st *State, lit *ast.FuncLit, args []Val, pos token.Pos) []Val {
	sig := fc.typeOf(lit).(*types.Signature)
	i := 0
	for _, f := range lit.Type.Params.List {
		for _, n := range f.Names {
			if o := fc.info().Defs[n]; o != nil {
				st.vars[o] = fc.bindVal(args[i], o.Type())
			}
			i++
		}
	}
	return fc.inlineBody(st, lit.Body, sig, lit.Type.Results, pos)
}

func (fc *FnCtx) inlineBody(st *State, body *ast.BlockStmt, sig *types.Signature, results *ast.FieldList, pos token.Pos) []Val {
	// named results
	savedFn, savedNamed := fc.fnSig, fc.namedRes
	fc.fnSig = sig
	fc.namedRes = false
	if results != nil {
		for _, f := range results.List {
			for _, n := range f.Names {
				if o := fc.info().Defs[n]; o != nil {
					st.vars[o] = fc.zero(o.Type())
					fc.namedRes = true
				}
			}
		}
	}
	savedDefers := st.defers
	st.defers = nil
	st.callDepth++
	sub := st.clone()
	r := fc.execBlock(body.List, sub)
	namedInline := fc.namedRes
	fc.fnSig, fc.namedRes = savedFn, savedNamed
	if len(r.breaks)+len(r.conts) > 0 {
		fc.fail(pos, "break/continue escaping closure")
	}
	var ends []*State
	if r.normal != nil {
		if sig.Results().Len() > 0 {
			// falling off the end with named results
			r.normal.ret = nil
			for i := 0; i < sig.Results().Len(); i++ {
				r.normal.ret = append(r.normal.ret, r.normal.vars[sig.Results().At(i)])
			}
		} else {
			r.normal.ret = nil
		}
		ends = append(ends, r.normal)
	}
	ends = append(ends, r.rets...)
	// deferred calls of the inlined body run, last first, when the body returns (plain deferred calls and function
	// literals; the results were fixed before - a deferred closure that assigns named results is outside the subset)
	for _, e := range ends {
		ds := e.defers
		e.defers = nil
		for i := len(ds) - 1; i >= 0; i-- {
			d := ds[i]
			savedRet := e.ret
			if d.lit != nil {
				if namedInline {
					fc.fail(pos, "deferred closure in an inlined function with named results (outside subset)")
				}
				fc.inlineFuncLit(e, d.lit, nil, d.call.Pos())
			} else {
				fc.evalCall(e, d.call)
			}
			e.ret = savedRet
		}
	}
	for _, p := range r.panics {
		// a panic inside the inlined body first runs the body's own defers, then the caller's
		p.defers = append(append([]*deferred{}, savedDefers...), p.defers...)
		p.callDepth--
		fc.pendingPanics = append(fc.pendingPanics, p)
	}
	m := fc.mergeAll(ends)
	if m == nil {
		st.pc = "false"
		st.defers = savedDefers
		st.callDepth--
		var vs []Val
		for i := 0; i < sig.Results().Len(); i++ {
			vs = append(vs, fc.zero(sig.Results().At(i).Type()))
		}
		return vs
	}
	ret := m.ret
	*st = *m
	st.ret = nil
	st.defers = savedDefers
	st.callDepth--
	return ret
}

// ---- static calls ----

func funcKey(f *types.Func) (pkgPath, key string) {
	f = f.Origin()
	sig := f.Type().(*types.Signature)
	if f.Pkg() != nil {
		pkgPath = f.Pkg().Path()
	}
	if r := sig.Recv(); r != nil {
		t := r.Type()
		if p, ok := t.(*types.Pointer); ok {
			t = p.Elem()
		}
		if n, ok := t.(*types.Named); ok {
			return pkgPath, n.Obj().Name() + "." + f.Name()
		}
		if _, ok := t.Underlying().(*types.Interface); ok {
			return pkgPath, "?." + f.Name()
		}
	}
	return pkgPath, f.Name()
}

func (fc *FnCtx) methodRecv(st *State, sel *ast.SelectorExpr, s *types.Selection) Val {
	// receiver value with implicit address-of / dereference / embedded path applied
	m := s.Obj().(*types.Func)
	rt := m.Type().(*types.Signature).Recv().Type()
	_, wantPtr := rt.Underlying().(*types.Pointer)
	if _, isIface := rt.Underlying().(*types.Interface); isIface {
		wantPtr = false
	}
	path := s.Index()
	path = path[:len(path)-1]
	baseTy := fc.typeOf(sel.X)
	_, baseIsPtr := baseTy.Underlying().(*types.Pointer)
	if len(path) == 0 {
		if wantPtr && !baseIsPtr {
			return fc.addrOf(st, sel.X)
		}
		v := fc.eval1(st, sel.X)
		if !wantPtr && baseIsPtr {
			if _, isIface := rt.Underlying().(*types.Interface); !isIface {
				return fc.deref(st, v, sel.Pos())
			}
		}
		return v
	}
	// embedded path
	base := fc.eval1(st, sel.X)
	cur := base
	for i, idx := range path {
		last := i == len(path)-1
		sTy, _, isPtr := structOf(cur.Ty)
		if sTy == nil {
			fc.fail(sel.Pos(), "embedded path through non-struct")
		}
		f := sTy.Field(idx)
		_, fIsPtr := f.Type().Underlying().(*types.Pointer)
		if last && wantPtr && !fIsPtr {
			if !isPtr {
				fc.fail(sel.Pos(), "address of embedded field in struct value")
			}
			return fc.fieldAddr(st, cur, idx, sel.Pos())
		}
		cur = fc.fieldOf(st, cur, idx, sel.Pos())
	}
	return cur
}

func (fc *FnCtx) callStatic(st *State, callee *types.Func, call *ast.CallExpr) []Val {
	var recv *Val
	fun := ast.Unparen(call.Fun)
	var copyOut func()
	if sel, ok := fun.(*ast.SelectorExpr); ok {
		if s, ok := fc.info().Selections[sel]; ok && s.Kind() == types.MethodVal {
			if rv, co, ok := fc.elemPtrRecv(st, sel, s); ok {
				recv, copyOut = &rv, co
			} else if rv, co, ok := fc.fieldPtrRecv(st, sel, s); ok {
				recv, copyOut = &rv, co
			} else {
				rv := fc.methodRecv(st, sel, s)
				recv = &rv
			}
		}
	}
	if copyOut != nil {
		defer copyOut()
	}
	if ie, ok := fun.(*ast.IndexExpr); ok { // generic instantiation f[T](...)
		_ = ie
	}
	sig := callee.Type().(*types.Signature)
	// a call of a generic function: evaluate the arguments at the instantiated parameter types
	{
		var id *ast.Ident
		switch f := ast.Unparen(call.Fun).(type) {
		case *ast.Ident:
			id = f
		case *ast.SelectorExpr:
			id = f.Sel
		case *ast.IndexExpr:
			switch g := ast.Unparen(f.X).(type) {
			case *ast.Ident:
				id = g
			case *ast.SelectorExpr:
				id = g.Sel
			}
		case *ast.IndexListExpr:
			switch g := ast.Unparen(f.X).(type) {
			case *ast.Ident:
				id = g
			case *ast.SelectorExpr:
				id = g.Sel
			}
		}
		if id != nil {
			if inst, ok := fc.info().Instances[id]; ok {
				if isig, ok := inst.Type.(*types.Signature); ok {
					sig = isig
				}
			}
		}
	}
	var args []Val
	isTupleArg := false
	if len(call.Args) == 1 {
		if tv, ok := fc.info().Types[call.Args[0]]; ok {
			_, isTupleArg = tv.Type.(*types.Tuple)
		}
	}
	if len(call.Args) == 1 && sig.Params().Len() > 1 && isTupleArg {
		args = fc.evalMulti(st, call.Args[0], sig.Params().Len())
	} else {
		for i, a := range call.Args {
			if sig.Variadic() && i >= sig.Params().Len()-1 && !call.Ellipsis.IsValid() {
				// variadic extra args: evaluate, pass boxed individually (only extern/allow-list callees)
				args = append(args, fc.eval1(st, a))
				continue
			}
			pt := sig.Params().At(i).Type()
			args = append(args, fc.evalTo(st, a, pt))
		}
	}
	// sync primitives and other engine-modelled externs
	if r, ok := fc.builtinExtern(st, callee, recv, args, call); ok {
		return r
	}
	res := fc.applyCall(st, callee, recv, args, call.Pos(), call)
	fc.ghostUpdatesAfterCall(st, callee.Name(), res)
	return res
}

func (fc *FnCtx) callInterface(st *State, sel *ast.SelectorExpr, s *types.Selection, call *ast.CallExpr) []Val {
	m := s.Obj().(*types.Func)
	rv := fc.methodRecv(st, sel, s)
	sig := m.Type().(*types.Signature)
	var args []Val
	for i, a := range call.Args {
		if i < sig.Params().Len() && !(sig.Variadic() && i >= sig.Params().Len()-1) {
			args = append(args, fc.evalTo(st, a, sig.Params().At(i).Type()))
		} else {
			args = append(args, fc.eval1(st, a))
		}
	}
	if r, ok := fc.builtinExtern(st, m, &rv, args, call); ok {
		return r
	}
	res := fc.applyCall(st, m, &rv, args, call.Pos(), call)
	fc.ghostUpdatesAfterCall(st, m.Name(), res)
	return res
}

func (fc *FnCtx) callFuncValue(st *State, fun ast.Expr, call *ast.CallExpr) []Val {
	fv := fc.eval1(st, fun)
	sig, ok := fv.Ty.Underlying().(*types.Signature)
	if !ok {
		fc.fail(call.Pos(), "call of non-function")
	}
	var args []Val
	for i, a := range call.Args {
		if i < sig.Params().Len() && !(sig.Variadic() && i >= sig.Params().Len()-1) {
			args = append(args, fc.evalTo(st, a, sig.Params().At(i).Type()))
		} else {
			args = append(args, fc.eval1(st, a))
		}
	}
	// a closure created in this function: run its body in place
	if cl, ok := fc.eng.closures[fv.T]; ok && cl.fc == fc {
		if cl.contract != nil && cl.contract != fc.contract {
			saved := fc.contract
			fc.contract = cl.contract
			defer func() { fc.contract = saved }()
		}
		return fc.inlineFuncLit(st, cl.lit, args, call.Pos())
	}
	// contract attached to the variable / field / parameter the function value is read from
	name := exprName(fun)
	if c := fc.cs.Funcs["funcval "+name]; c != nil {
		return fc.applyContract(st, c, fc.cs, fc.pkg.Types, sig, nil, args, "funcval "+name, call.Pos())
	}
	if !fc.cs.PureVars[name] {
		fc.nonNilFunc(st, fv, call.Pos())
	}
	if fc.cs.PureVars[name] {
		fc.externsUsed["assumed side-effect free function value: "+name] = true
		return fc.havocResults(st, sig)
	}
	// unknown callback: it may change anything reachable; havoc the whole heap except lock ghosts and locals
	fc.dropped["call through function value "+name+": full heap havoc"] = true
	fc.havocAllHeap(st)
	return fc.havocResults(st, sig)
}

func (fc *FnCtx) nonNilFunc(st *State, fv Val, pos token.Pos) {
	if strings.HasPrefix(fv.T, "fn$") || strings.HasPrefix(fv.T, "closure$") || strings.HasPrefix(fv.T, "methodval$") {
		return
	}
	fc.assert(st, not(app("=", fv.T, "0")), "nil", "called function value is non-nil", pos)
}

func exprName(e ast.Expr) string {
	switch x := ast.Unparen(e).(type) {
	case *ast.Ident:
		return x.Name
	case *ast.SelectorExpr:
		return exprName(x.X) + "." + x.Sel.Name
	case *ast.IndexExpr:
		return exprName(x.X) + "[]"
	case *ast.CallExpr:
		return exprName(x.Fun) + "()"
	}
	return "?"
}

func (fc *FnCtx) havocResults(st *State, sig *types.Signature) []Val {
	var out []Val
	for i := 0; i < sig.Results().Len(); i++ {
		t := sig.Results().At(i).Type()
		r := fc.fresh("res", fc.sortOf(t))
		fc.assume(st, fc.rangeFact(r, t))
		fc.assume(st, fc.wellFormed(r, t))
		out = append(out, Val{T: r, Ty: t})
	}
	return out
}

// wellFormed: representation invariants of a symbolic value of a Go type (slice header sanity).
func (fc *FnCtx) wellFormed(t string, ty types.Type) string {
	switch ty.Underlying().(type) {
	case *types.Slice:
		z := fc.idxLit(0)
		return and(fc.leIdx(z, app("s-len", t)), fc.leIdx(app("s-len", t), app("s-cap", t)), fc.leIdx(z, app("s-off", t)),
			app(">=", app("s-arr", t), "0"),
			implies(app("=", app("s-arr", t), "0"), app("=", app("s-cap", t), z)),
			fc.noWrap(app("s-off", t), app("s-cap", t)))
	case *types.Pointer, *types.Map, *types.Chan:
		return app(">=", t, "0")
	}
	return "true"
}

// noWrap: off + cap does not overflow the index type (real slices live in addressable memory).
func (fc *FnCtx) noWrap(off, cp string) string {
	if fc.idxBV() {
		return app("bvsle", off, app("bvsub", bvLit(maxInt63(), 64), cp))
	}
	return app("<=", app("+", off, cp), maxInt63().String())
}

func (fc *FnCtx) havocAllHeap(st *State) {
	for k := range fc.heapSort {
		if strings.HasPrefix(k, "$") {
			continue
		}
		fc.heapHavoc(st, k)
	}
	st.havocEpoch++
}

// applyCall finds the callee's contract and applies it.
func (fc *FnCtx) applyCall(st *State, callee *types.Func, recv *Val, args []Val, pos token.Pos, call *ast.CallExpr) []Val {
	sig := callee.Type().(*types.Signature)
	c, home, homePkg, key := fc.eng.lookupContract(callee)
	if lc := fc.cs.Funcs["extern "+key]; lc != nil {
		c, home = lc, fc.cs
		key += " (package-local assumed contract, " + filepath.Base(lc.File) + ")"
	}
	if c == nil {
		if fc.eng.effectFree(callee) {
			fc.dropped["effect-free allow-list: "+callee.FullName()] = true
			return fc.havocResults(st, sig)
		}
		// a function of the same package that has no contract (a helper split off by a refactoring, say) is
		// executed in place: the caller is then verified against the helper's real body, which is sound and
		// keeps the caller's contract decidable; recursion is cut by the inline depth limit
		if callee.Pkg() == fc.pkg.Types {
			if d := fc.eng.declOf(fc.pkg, callee); d != nil && d.Body != nil {
				fc.dropped["callee without a contract executed in place: "+callee.FullName()] = true
				return fc.inlineCallee(st, callee, recv, args, pos)
			}
		}
		fc.fail(pos, "no contract for callee %s (key %s)", callee.FullName(), key)
	}
	if c.Extern {
		fc.externsUsed["extern contract: "+key] = true
	}
	if c.Inline && !c.Extern && homePkg == fc.pkg.Types {
		return fc.inlineCallee(st, callee, recv, args, pos)
	}
	return fc.applyContract(st, c, home, homePkg, sig, recv, args, key, pos)
}

func (fc *FnCtx) inlineCallee(st *State, callee *types.Func, recv *Val, args []Val, pos token.Pos) []Val {
	decl := fc.eng.declOf(fc.pkg, callee)
	if decl == nil || decl.Body == nil {
		fc.fail(pos, "cannot inline %s: no body", callee.FullName())
	}
	if fc.inlineDepth > 6 {
		fc.fail(pos, "inline depth exceeded at %s", callee.FullName())
	}
	fc.inlineDepth++
	savedOld := fc.inlineOld
	fc.inlineOld = st.clone()
	defer func() { fc.inlineDepth--; fc.inlineOld = savedOld }()
	sig := callee.Type().(*types.Signature)
	if recv != nil && decl.Recv != nil && len(decl.Recv.List) > 0 && len(decl.Recv.List[0].Names) > 0 {
		if o := fc.info().Defs[decl.Recv.List[0].Names[0]]; o != nil {
			st.vars[o] = *recv
		}
	}
	i := 0
	for _, f := range decl.Type.Params.List {
		for _, n := range f.Names {
			if o := fc.info().Defs[n]; o != nil && i < len(args) {
				st.vars[o] = fc.bindVal(args[i], o.Type())
			}
			i++
		}
	}
	// loop ordinals of the inlined body
	fc.numberLoops(decl)
	savedContract := fc.contract
	if c := fc.cs.Funcs[declKey(decl)]; c != nil {
		fc.contract = c
	}
	defer func() { fc.contract = savedContract }()
	return fc.inlineBody(st, decl.Body, sig, decl.Type.Results, pos)
}

// applyContract: assert requires, havoc modifies, assume ensures. The callee body is not consulted.
func (fc *FnCtx) applyContract(st *State, c *Contract, home *ContractSet, homePkg *types.Package, sig *types.Signature, recv *Val, args []Val, key string, pos token.Pos) []Val {
	env := &SpecEnv{fc: fc, cur: st, old: st, bound: map[string]Val{}, home: home, homePkg: homePkg}
	names := c.ParamNames
	bind := func(i int, def string, v Val) {
		n := def
		if i < len(names) && names[i] != "" {
			n = names[i]
		}
		if n != "" && n != "_" {
			env.bound[n] = v
		}
	}
	idx := 0
	if recv != nil {
		rn := "recv"
		if sig.Recv() != nil && sig.Recv().Name() != "" {
			rn = sig.Recv().Name()
		}
		if len(names) == sig.Params().Len()+1 {
			bind(0, rn, *recv)
			idx = 1
		} else {
			env.bound[rn] = *recv
			env.bound["recv"] = *recv
		}
	}
	for i := 0; i < sig.Params().Len() && i < len(args); i++ {
		p := sig.Params().At(i)
		bind(idx+i, p.Name(), args[i])
	}
	for i := range args {
		env.bound[fmt.Sprintf("$%d", i)] = args[i] // positional access, also to the individual variadic arguments
	}
	env.nargs = len(args)
	short := key
	if j := strings.LastIndex(key, "/"); j >= 0 {
		short = key[j+1:]
	}
	for ri, r := range c.Requires {
		parts := splitConjDeep(r.E, env)
		for j, part := range parts {
			g := env.evalBool(part)
			label := r.Label
			if label == "" {
				label = fmt.Sprint(ri + 1)
			}
			if len(parts) > 1 {
				label = fmt.Sprintf("%s.%d", label, j+1)
			}
			fc.assertNamed(st, g, "pre("+short+")", label, "precondition of "+key+": "+part.String(), pos)
		}
	}
	pre := st.clone()
	// callee's frame must be inside ours
	for _, m := range c.Modifies {
		fc.havocModifies(st, pre, m, env)
	}
	// results
	var results []Val
	post := &SpecEnv{fc: fc, cur: st, old: pre, bound: env.bound, home: home, homePkg: homePkg}
	post.bound = map[string]Val{}
	for k, v := range env.bound {
		post.bound[k] = v
	}
	// cs(e) in a callee's postcondition denotes the state when the callee's last critical section began:
	// an unknown intermediate state (other goroutines ran before the callee got its lock). It also becomes
	// the caller's "last critical section" for the caller's own postconditions.
	usesCS := false
	for _, e := range c.Ensures {
		if mentionsCall(e.E, "cs") {
			usesCS = true
		}
		for name, pf := range home.Pures {
			if strings.Contains(pf.Text, "cs(") && mentionsCall(e.E, name) {
				usesCS = true
			}
		}
	}
	if usesCS {
		mid := pre.clone()
		for _, m := range c.Modifies {
			e2 := *env
			e2.cur, e2.old = pre, pre
			for _, reg := range fc.regionsOf(m, &e2) {
				fc.havocRegion(mid, reg)
			}
		}
		st.csSnap = mid
	}
	// `ensures result == E` (E not mentioning result) defines the result: bind it to E's term directly
	defs := map[int]*SExpr{}
	if sig.Results().Len() == 1 && !c.MayPanic {
		for _, e := range c.Ensures {
			if d := resultDefinition(e.E, sig.Results().At(0).Name()); d != nil {
				defs[0] = d
				break
			}
		}
	}
	for i := 0; i < sig.Results().Len(); i++ {
		rv := sig.Results().At(i)
		t := rv.Type()
		var r string
		if d, ok := defs[i]; ok {
			dv := fc.assignConvSpec(post.eval(d), t)
			r = fc.define("res", fc.sortOf(t), dv.T)
		} else {
			r = fc.fresh("res", fc.sortOf(t))
			fc.assume(st, fc.rangeFact(r, t))
			fc.assume(st, fc.wellFormed(r, t))
		}
		v := Val{T: r, Ty: t}
		results = append(results, v)
		if rv.Name() != "" && rv.Name() != "_" {
			post.bound[rv.Name()] = v
		}
		post.bound[fmt.Sprintf("result%d", i)] = v
		if sig.Results().Len() == 1 {
			post.bound["result"] = v
		}
	}
	if c.MayPanic {
		ps := st.clone()
		ps.panick = "true"
		fc.ifaceSort()
		ps.panicV = fc.fresh("panicval", "Iface")
		penv := *post
		penv.cur = ps
		pc := fc.fresh("callpanics", "Bool")
		ps.pc = fc.define("pc", "Bool", and(st.pc, pc))
		st.pc = fc.define("pc", "Bool", and(st.pc, not(pc)))
		// the callee's ensures_panic clauses hold on the panicking branch only (assumed under its path condition)
		for _, e := range c.EnsuresPanic {
			fc.assume(ps, penv.evalBool(e.E))
		}
		fc.pendingPanics = append(fc.pendingPanics, ps)
	}
	for _, e := range c.Ensures {
		if isLocalClause(e) {
			continue // `#label(@local)`: a clause about the function's own locals, proved at its exits, not part of what callers see
		}
		fc.assume(st, post.evalBool(e.E))
	}
	return results
}

func mentionsCall(e *SExpr, name string) bool {
	if e == nil {
		return false
	}
	if e.Kind == SCall && e.Fun != nil && e.Fun.Kind == SIdent && e.Fun.Name == name {
		return true
	}
	if e.Fun != nil && mentionsCall(e.Fun, name) {
		return true
	}
	for _, a := range e.Args {
		if mentionsCall(a, name) {
			return true
		}
	}
	return false
}

// havocModifies havocs the region designated by a modifies clause. env == nil: clause of the
// function under verification (identifiers are Go locals/params evaluated in `pre`).
func (fc *FnCtx) havocModifies(st, pre *State, m *Clause, env *SpecEnv) {
	if env == nil {
		env = fc.newSpecEnv(pre, pre, fc.decl.Body.Lbrace+1)
	} else {
		e2 := *env
		e2.cur, e2.old = pre, pre
		env = &e2
	}
	for _, reg := range fc.regionsOf(m, env) {
		if fc.inlineDepth == 0 && fc.checkingFrame {
			fc.checkRegionInFrame(st, reg, m)
		}
		fc.havocRegion(st, reg)
	}
}

type region struct {
	key    string
	sort   string
	base   string // "" whole
	lo, hi string // for elems: index range [lo,hi) relative to the inner array (absolute indices); "" = all
	elem   types.Type
}

// regionsOf interprets a modifies designator.
func (fc *FnCtx) regionsOf(m *Clause, env *SpecEnv) []region {
	e := m.E
	switch e.Kind {
	case SField:
		// T.f (type-qualified: all objects) or x.f
		if e.Args[0].Kind == SIdent {
			if _, bound := env.bound[e.Args[0].Name]; !bound {
				if t := fc.tryResolveType(e.Args[0].Name, env.homePkg); t != nil {
					if _, isLocal := fc.lookupLocal(env, e.Args[0].Name); !isLocal {
						ft := fc.fieldTypeOf(t, e.Name, env)
						return []region{{key: fc.fieldKey(t, e.Name), sort: fmt.Sprintf("(Array Int %s)", fc.sortOf(ft))}}
					}
				}
			}
		}
		if a0 := e.Args[0]; a0.Kind == SField && a0.Args[0].Kind == SIdent {
			// pkg.Type.f : every object's field f
			if t := fc.tryResolveType(a0.Args[0].Name+"."+a0.Name, env.homePkg); t != nil {
				if _, isLocal := fc.lookupLocal(env, a0.Args[0].Name); !isLocal {
					if _, bound := env.bound[a0.Args[0].Name]; !bound {
						ot, ft := fc.fieldOwner(t, e.Name, env)
						return []region{{key: fc.fieldKey(ot, e.Name), sort: fmt.Sprintf("(Array Int %s)", fc.sortOf(ft))}}
					}
				}
			}
		}
		base := env.eval(e.Args[0])
		_, owner, isPtr := structOf(base.Ty)
		if !isPtr {
			fc.fail(token.NoPos, "modifies %s: base is not a pointer to struct", m.Text)
		}
		// embedded promotion
		ownerT, ft := fc.fieldOwner(owner, e.Name, env)
		return []region{{key: fc.fieldKey(ownerT, e.Name), sort: fmt.Sprintf("(Array Int %s)", fc.sortOf(ft)), base: base.T}}
	case SSlice:
		s := env.eval(e.Args[0])
		stt, ok := s.Ty.Underlying().(*types.Slice)
		if !ok {
			fc.fail(token.NoPos, "modifies %s: not a slice", m.Text)
		}
		key, sort := fc.elemsKey(stt.Elem())
		r := region{key: key, sort: sort, base: app("s-arr", s.T), elem: stt.Elem()}
		off := app("s-off", s.T)
		if e.Args[1] != nil || e.Args[2] != nil {
			lo, hi := fc.idxLit(0), app("s-len", s.T)
			if e.Args[1] != nil {
				lo = fc.toIdx(env.eval(e.Args[1]))
			}
			if e.Args[2] != nil {
				hi = fc.toIdx(env.eval(e.Args[2]))
			}
			r.lo, r.hi = fc.addIdx(off, lo), fc.addIdx(off, hi)
		} else {
			r.lo, r.hi = off, fc.addIdx(off, app("s-cap", s.T))
		}
		return []region{r}
	case SCall:
		if e.Fun.Kind == SIdent {
			switch e.Fun.Name {
			case "entries": // entries(m): the whole content of map m
				mv := env.eval(e.Args[0])
				mt, ok := mv.Ty.Underlying().(*types.Map)
				if !ok {
					fc.fail(token.NoPos, "modifies %s: not a map", m.Text)
				}
				vk, hk, vs, hs := fc.mapKeys(mt)
				ck := "MC$" + fc.typeName(mt.Key()) + "$" + fc.typeName(mt.Elem())
				return []region{{key: vk, sort: vs, base: mv.T}, {key: hk, sort: hs, base: mv.T}, {key: ck, sort: "(Array Int Int)", base: mv.T}}
			case "mapsof": // mapsof(m): every map of m's type (needed when the map pointer itself may be replaced)
				mv := env.eval(e.Args[0])
				mt, ok := mv.Ty.Underlying().(*types.Map)
				if !ok {
					fc.fail(token.NoPos, "modifies %s: not a map", m.Text)
				}
				vk, hk, vs, hs := fc.mapKeys(mt)
				ck := "MC$" + fc.typeName(mt.Key()) + "$" + fc.typeName(mt.Elem())
				return []region{{key: vk, sort: vs}, {key: hk, sort: hs}, {key: ck, sort: "(Array Int Int)"}}
			case "region": // region(name): a named whole heap array, e.g. region(H$container/list.Element$rk)
				var out []region
				for _, a := range e.Args {
					k := a.Name
					if a.Kind == SStr {
						k = a.Name
					}
					srt, ok := fc.heapSort[k]
					if !ok {
						srt = fc.eng.regionSorts[k]
					}
					if srt == "" {
						srt = map[string]string{"$chanclosed": "(Array Int Bool)", "$condsleep": "(Array Int Int)", "$condwoken": "(Array Int Int)", "$held": heldSort, "$alloc": "Int"}[k]
					}
					out = append(out, region{key: k, sort: srt})
				}
				return out
			case "deref": // deref(p): the cell *p of a pointer to a non-struct type
				pv := env.eval(e.Args[0])
				pt, ok := pv.Ty.Underlying().(*types.Pointer)
				if !ok {
					fc.fail(token.NoPos, "modifies %s: not a pointer", m.Text)
				}
				return []region{{key: "P$" + fc.typeName(pt.Elem()), sort: fmt.Sprintf("(Array Int %s)", fc.sortOf(pt.Elem())), base: pv.T}}
			case "everything":
				return []region{{key: "*"}}
			}
		}
	case SIdent:
		// global variable or ghost
		if env.homePkg != nil {
			if v, ok := env.homePkg.Scope().Lookup(e.Name).(*types.Var); ok {
				return []region{{key: fc.globalKey(v), sort: fc.sortOf(v.Type())}}
			}
		}
		for _, cs := range []*ContractSet{env.home, fc.cs, fc.eng.externs} {
			if cs == nil {
				continue
			}
			if ty, ok := cs.Ghosts[e.Name]; ok {
				t := fc.resolveType(ty, env.homePkg)
				return []region{{key: "ghost$" + e.Name, sort: fc.sortOf(t)}}
			}
		}
	case SUnary:
		if e.Name == "*" {
			break
		}
	}
	fc.fail(token.NoPos, "unsupported modifies designator %q", m.Text)
	return nil
}

func (fc *FnCtx) lookupLocal(env *SpecEnv, name string) (Val, bool) {
	if !env.goLocals || !env.scopePos.IsValid() {
		return Val{}, false
	}
	if sc := fc.pkg.Types.Scope().Innermost(env.scopePos); sc != nil {
		if _, obj := sc.LookupParent(name, env.scopePos); obj != nil {
			if v, ok := obj.(*types.Var); ok {
				if val, ok := env.cur.vars[v]; ok {
					return val, true
				}
			}
		}
	}
	return Val{}, false
}

func (fc *FnCtx) fieldTypeOf(t types.Type, name string, env *SpecEnv) types.Type {
	_, ft := fc.fieldOwner(t, name, env)
	return ft
}

func (fc *FnCtx) fieldOwner(owner types.Type, name string, env *SpecEnv) (types.Type, types.Type) {
	if gt, ok := env.ghostField(owner, name); ok {
		return owner, gt
	}
	s, _ := owner.Underlying().(*types.Struct)
	if s != nil {
		for i := 0; i < s.NumFields(); i++ {
			if s.Field(i).Name() == name {
				return owner, s.Field(i).Type()
			}
		}
		for i := 0; i < s.NumFields(); i++ {
			if s.Field(i).Embedded() {
				et := s.Field(i).Type()
				if p, ok := et.Underlying().(*types.Pointer); ok {
					et = p.Elem()
				}
				if _, ok := et.Underlying().(*types.Struct); ok {
					if o, ft := fc.fieldOwner(et, name, env); ft != nil {
						return o, ft
					}
				}
			}
		}
	}
	fc.fail(token.NoPos, "no field %s in %s", name, owner)
	return nil, nil
}

func (fc *FnCtx) havocRegion(st *State, r region) {
	if r.key == "*" {
		fc.havocAllHeap(st)
		return
	}
	if r.sort == "" {
		fc.heapHavoc(st, r.key)
		return
	}
	fc.heapKeySort(r.key, r.sort)
	if r.base == "" {
		if r.key == "$chanclosed" {
			// a closed channel stays closed
			old := fc.heapGet(st, r.key, r.sort)
			st.heap[r.key] = fc.fresh(r.key, r.sort)
			fc.assume(st, fmt.Sprintf("(forall ((c Int)) (! (=> (select %s c) (select %s c)) :pattern ((select %s c))))", old, st.heap[r.key], st.heap[r.key]))
			return
		}
		if r.key == "$alloc" {
			// the allocation counter only grows
			old := fc.heapGet(st, r.key, r.sort)
			st.heap[r.key] = fc.fresh(r.key, r.sort)
			fc.assume(st, app(">=", st.heap[r.key], old))
			return
		}
		st.heap[r.key] = fc.fresh(r.key, r.sort)
		return
	}
	cur := fc.heapGet(st, r.key, r.sort)
	inner := arrayElemSort(r.sort)
	nv := fc.fresh(r.key+"$cell", inner)
	if r.lo != "" {
		// only indices in [lo,hi) change
		old := app("select", cur, r.base)
		I := fc.I()
		fc.assume(st, fmt.Sprintf("(forall ((j %s)) (! (=> (not %s) (= (select %s j) (select %s j))) :pattern ((select %s j))))", I,
			and(fc.leIdx(r.lo, "j"), fc.ltIdx("j", r.hi)), nv, old, nv))
	}
	st.heap[r.key] = fc.define(r.key, r.sort, app("store", cur, r.base, nv))
}

// effect-free allow-list handled in engine.go

// elemPtrRecv: s[i].M() where M has a pointer receiver: the element is copied into a fresh cell,
// the method runs on the cell, and the cell is copied back (sound when the callee does not retain
// the pointer; callees under contract only access *recv).
func (fc *FnCtx) elemPtrRecv(st *State, sel *ast.SelectorExpr, s *types.Selection) (Val, func(), bool) {
	m := s.Obj().(*types.Func)
	rt := m.Type().(*types.Signature).Recv().Type()
	pt, wantPtr := rt.Underlying().(*types.Pointer)
	if !wantPtr || len(s.Index()) != 1 {
		return Val{}, nil, false
	}
	ix, ok := ast.Unparen(sel.X).(*ast.IndexExpr)
	if !ok {
		return Val{}, nil, false
	}
	stt, ok := fc.typeOf(ix.X).Underlying().(*types.Slice)
	if !ok {
		return Val{}, nil, false
	}
	if _, isStruct := pt.Elem().Underlying().(*types.Struct); isStruct {
		return Val{}, nil, false
	}
	base := fc.eval1(st, ix.X)
	iv := fc.eval1(st, ix.Index)
	i := fc.toIdx(iv)
	fc.assert(st, fc.inBounds(i, app("s-len", base.T), iv), "bounds", "slice index in range (method call on element)", ix.Pos())
	cell := fc.allocRef(st, "elemcell")
	key := "P$" + fc.typeName(pt.Elem())
	sort := fmt.Sprintf("(Array Int %s)", fc.sortOf(pt.Elem()))
	fc.heapSet(st, key, sort, app("store", fc.heapGet(st, key, sort), cell, fc.sliceElem(st, base, i, stt.Elem())))
	copyOut := func() {
		v := app("select", fc.heapGet(st, key, sort), cell)
		fc.checkFrameElem(st, base, i, ix.Pos())
		fc.storeElem(st, base, i, Val{T: v, Ty: stt.Elem()}, stt.Elem())
	}
	return Val{T: cell, Ty: rt}, copyOut, true
}

// fieldPtrRecv: x.f.m() where m has a pointer receiver and f is a slice-typed field of *x (the compiler passes &x.f).
// Copy-in / copy-out through a fresh cell: the callee sees *recv == x.f and what it leaves there is written back to
// the field (with the caller's frame check). Sound because the interior pointer does not outlive the call and a callee
// under contract can reach the field only through its receiver.
func (fc *FnCtx) fieldPtrRecv(st *State, sel *ast.SelectorExpr, s *types.Selection) (Val, func(), bool) {
	m := s.Obj().(*types.Func)
	rt := m.Type().(*types.Signature).Recv().Type()
	pt, wantPtr := rt.Underlying().(*types.Pointer)
	if !wantPtr || len(s.Index()) != 1 {
		return Val{}, nil, false
	}
	fx, ok := ast.Unparen(sel.X).(*ast.SelectorExpr)
	if !ok {
		return Val{}, nil, false
	}
	fsel, ok := fc.info().Selections[fx]
	if !ok || fsel.Kind() != types.FieldVal {
		return Val{}, nil, false
	}
	if _, isSlice := pt.Elem().Underlying().(*types.Slice); !isSlice {
		return Val{}, nil, false
	}
	if _, baseIsPtr := fc.typeOf(fx.X).Underlying().(*types.Pointer); !baseIsPtr || len(fsel.Index()) != 1 {
		return Val{}, nil, false
	}
	cur := fc.eval1(st, fx)
	cell := fc.allocRef(st, "fieldcell")
	key := "P$" + fc.typeName(pt.Elem())
	sort := fmt.Sprintf("(Array Int %s)", fc.sortOf(pt.Elem()))
	fc.heapSet(st, key, sort, app("store", fc.heapGet(st, key, sort), cell, cur.T))
	copyOut := func() {
		v := app("select", fc.heapGet(st, key, sort), cell)
		fc.assign(st, fx, Val{T: v, Ty: cur.Ty})
	}
	return Val{T: cell, Ty: rt}, copyOut, true
}

// resultDefinition: if e is `result == E` (or a top-level conjunction containing it) with E free of
// the result, returns E.
func resultDefinition(e *SExpr, resName string) *SExpr {
	if e.Kind == SBinary && e.Name == "&&" {
		if d := resultDefinition(e.Args[0], resName); d != nil {
			return d
		}
		return resultDefinition(e.Args[1], resName)
	}
	if e.Kind == SBinary && e.Name == "==" && e.Args[0].Kind == SIdent && (e.Args[0].Name == "result" || (resName != "" && e.Args[0].Name == resName)) {
		if !mentions(e.Args[1], "result") && (resName == "" || !mentions(e.Args[1], resName)) && !mentionsOld(e.Args[1]) {
			return e.Args[1]
		}
	}
	return nil
}

func mentions(e *SExpr, name string) bool {
	if e == nil {
		return false
	}
	if e.Kind == SIdent && e.Name == name {
		return true
	}
	if e.Fun != nil && mentions(e.Fun, name) {
		return true
	}
	for _, a := range e.Args {
		if mentions(a, name) {
			return true
		}
	}
	return false
}

func mentionsOld(e *SExpr) bool {
	if e == nil {
		return false
	}
	if e.Kind == SOld {
		return true
	}
	for _, a := range e.Args {
		if mentionsOld(a) {
			return true
		}
	}
	return false
}

// splitConjDeep: like splitConj, but also opens a top-level call of a pure (macro) function whose body
// is a conjunction, by substituting the actual arguments (only when they are plain identifiers).
func splitConjDeep(e *SExpr, env *SpecEnv) []*SExpr {
	var out []*SExpr
	for _, p := range splitConj(e) {
		if p.Kind == SCall && p.Fun != nil && p.Fun.Kind == SIdent {
			if pf, _ := env.findPure(p.Fun.Name); pf != nil && pf.Body != nil && len(pf.Params) == len(p.Args) {
				ok := true
				sub := map[string]*SExpr{}
				for i, a := range p.Args {
					if a.Kind != SIdent {
						ok = false
					}
					sub[pf.Params[i].Name] = a
				}
				if ok {
					body := substSExpr(pf.Body, sub)
					parts := splitConj(body)
					if len(parts) > 1 {
						out = append(out, parts...)
						continue
					}
				}
			}
		}
		out = append(out, p)
	}
	return out
}

func substSExpr(e *SExpr, sub map[string]*SExpr) *SExpr {
	if e == nil {
		return nil
	}
	if e.Kind == SIdent {
		if r, ok := sub[e.Name]; ok {
			return r
		}
		return e
	}
	n := *e
	if e.Kind == SQuant {
		// bound variables shadow
		inner := map[string]*SExpr{}
		for k, v := range sub {
			inner[k] = v
		}
		for _, v := range e.Vars {
			delete(inner, v.Name)
		}
		sub = inner
	}
	n.Args = make([]*SExpr, len(e.Args))
	for i, a := range e.Args {
		n.Args[i] = substSExpr(a, sub)
	}
	if e.Fun != nil && e.Kind == SCall {
		n.Fun = e.Fun // function names are not substituted
	}
	if len(e.Trigs) > 0 {
		n.Trigs = make([][]*SExpr, len(e.Trigs))
		for i, tr := range e.Trigs {
			for _, t := range tr {
				n.Trigs[i] = append(n.Trigs[i], substSExpr(t, sub))
			}
		}
	}
	return &n
}

// bytesToString: string(b) is a function of the bytes b[0..len): gs.ofbytes(content array, offset, length),
// with axioms giving its length and characters. The same term is produced for the spec expression string(b[lo:hi]).
func (fc *FnCtx) bytesToString(st *State, v Val, to types.Type) Val {
	fc.strSort()
	I := fc.I()
	if !fc.declared["gs.ofbytes"] {
		fc.declared["gs.ofbytes"] = true
		fc.addPre(fmt.Sprintf("(declare-fun gs.ofbytes ((Array %s (_ BitVec 8)) %s %s) Str)", I, I, I))
		fc.addAxiom("gs.ofbytes", fmt.Sprintf("(assert (forall ((a (Array %s (_ BitVec 8))) (o %s) (n %s)) (! (=> %s (= (gs.len (gs.ofbytes a o n)) n)) :pattern ((gs.ofbytes a o n)))))", I, I, I, fc.leIdx(fc.idxLit(0), "n")))
		rd := app("select", "a", fc.addIdx("o", "i"))
		if fc.cs != nil && fc.cs.IndexElt {
			rd = app(fc.eltFn(tUint8), "a", "o", "i")
		}
		fc.addAxiom("gs.ofbytes", fmt.Sprintf("(assert (forall ((a (Array %s (_ BitVec 8))) (o %s) (n %s) (i %s)) (! (=> (and %s %s) (= (gs.at (gs.ofbytes a o n) i) %s)) :pattern ((gs.at (gs.ofbytes a o n) i)))))", I, I, I, I, fc.leIdx(fc.idxLit(0), "i"), fc.ltIdx("i", "n"), rd))
	}
	if !fc.isBVType(tUint8) {
		fc.fail(token.NoPos, "string([]byte) needs bytes as bit-vectors (use `arith mixed`)")
	}
	key, srt := fc.elemsKey(tUint8)
	a := app("select", fc.heapGet(st, key, srt), app("s-arr", v.T))
	return Val{T: app("gs.ofbytes", a, app("s-off", v.T), app("s-len", v.T)), Ty: to}
}

func isLocalClause(c *Clause) bool {
	for _, n := range c.Needs {
		if n == "@local" {
			return true
		}
	}
	return false
}
