package main

import (
	"bufio"
	"encoding/json"
	"fmt"
	"os"
	"path/filepath"
	"regexp"
	"sort"
	"strings"
	"time"
)

type KnownFinding struct {
	Property   string
	Obligation string // exact name or prefix ending with '*'
	When       string // spec expression over the function's entry state ("" = any failure of this obligation)
	What       string
	Line       string
}

var kfRe = regexp.MustCompile(`(\w+)=("([^"]*)"|\S+)`)

func loadKnownFindings(path string) ([]KnownFinding, []string) {
	f, err := os.Open(path)
	if err != nil {
		return nil, nil
	}
	defer f.Close()
	var out []KnownFinding
	var fixed []string
	sc := bufio.NewScanner(f)
	for sc.Scan() {
		l := strings.TrimSpace(sc.Text())
		if l == "" || strings.HasPrefix(l, "#") {
			continue
		}
		if strings.HasPrefix(l, "fixed:") {
			fixed = append(fixed, l)
			continue
		}
		kf := KnownFinding{Line: l}
		for _, m := range kfRe.FindAllStringSubmatch(l, -1) {
			v := m[2]
			if m[3] != "" || strings.HasPrefix(v, "\"") {
				v = m[3]
			}
			switch m[1] {
			case "property":
				kf.Property = v
			case "obligation":
				kf.Obligation = v
			case "when":
				kf.When = v
			case "what":
				kf.What = v
			}
		}
		if kf.Property != "" && kf.Obligation != "" {
			out = append(out, kf)
		}
	}
	return out, fixed
}

func (kf *KnownFinding) matches(prop, obl string) bool {
	if kf.Property != prop {
		return false
	}
	if strings.HasSuffix(kf.Obligation, "*") {
		return strings.HasPrefix(obl, strings.TrimSuffix(kf.Obligation, "*"))
	}
	return kf.Obligation == obl
}

// isExactlyKnown: the failure is the recorded one iff the obligation discharges once the recorded
// failing condition is excluded.
func isExactlyKnown(ob *Obligation, kf *KnownFinding, o *checkOpts) (bool, string) {
	if kf.When == "" {
		return true, "any failure of this obligation is the recorded finding"
	}
	fc := ob.fc
	var cond string
	err := func() (err error) {
		defer func() {
			if r := recover(); r != nil {
				if ve, ok := r.(vcError); ok {
					err = fmt.Errorf("%s", ve.msg)
					return
				}
				panic(r)
			}
		}()
		e, perr := ParseSpec(kf.When)
		if perr != nil {
			return perr
		}
		scope := fc.decl.Body.Lbrace + 1
		env := fc.newSpecEnv(fc.entry, fc.entry, scope)
		fc.bindParamsOld(env)
		cond = env.evalBool(e)
		return nil
	}()
	if err != nil {
		return false, "cannot evaluate `when`: " + err.Error()
	}
	q := ob.QueryText()
	q = strings.Replace(q, "(check-sat)", "(assert "+not(cond)+")\n(check-sat)", 1)
	p, werr := writeQuery(o.out, ob.Name+"__excluding_known", q)
	if werr != nil {
		return false, werr.Error()
	}
	r := Solve(p, o.timeout, o.seed, false)
	return r.Status == "unsat", "with the recorded condition excluded: " + r.Status + " (" + r.Solver + ")"
}

type Evidence struct {
	PropertyID  string                 `json:"property_id"`
	Tier        string                 `json:"tier"`
	Seed        int                    `json:"seed"`
	Level       string                 `json:"level"`
	Coverage    map[string]interface{} `json:"coverage"`
	Assumptions []string               `json:"assumptions"`
	WallS       float64                `json:"wall_s"`
	Violations  int                    `json:"violations"`
}

func report(o *checkOpts, cfg *PropConfig, eng *Engine, results []*FuncResult, obls []*Obligation, engineErrs []string, assumeScan int, t0 time.Time) int {
	known, fixed := loadKnownFindings(filepath.Join(o.verif, "KNOWN_FINDINGS.txt"))
	_ = fixed
	var failed, vacuityFail, vacuityUnknown []*Obligation
	var deadExits []string
	discharged := 0
	total := 0
	bySolver := map[string]int{}
	solverSecs := map[string]float64{}
	var recs []oblRecord
	disagree := false
	for _, ob := range obls {
		rec := oblRecord{Name: ob.Name, Kind: ob.Kind, Status: ob.Res.Status, Solver: ob.Res.Solver, Secs: ob.Res.Secs, Query: ob.Query, Desc: ob.Desc, Pos: ob.Pos}
		recs = append(recs, rec)
		if ob.Expect == "sat" {
			switch ob.Res.Status {
			case "sat":
			case "unsat":
				if ob.Kind == "reach" {
					deadExits = append(deadExits, ob.Desc+" ("+ob.Name+")")
					continue
				}
				vacuityFail = append(vacuityFail, ob)
			default:
				vacuityUnknown = append(vacuityUnknown, ob)
			}
			continue
		}
		total++
		if ob.Res.Status == "disagree" {
			disagree = true
		}
		if ob.Res.Status == "unsat" {
			discharged++
			bySolver[ob.Res.Solver]++
			solverSecs[ob.Res.Solver] += ob.Res.Secs
		} else {
			failed = append(failed, ob)
		}
	}
	exit := 0
	var lines []string
	violations := 0
	var knownHit []string
	replayDir := filepath.Join(o.out, "replays")
	for _, ob := range failed {
		var kfHit *KnownFinding
		var why string
		for i := range known {
			if known[i].matches(o.prop, ob.Name) {
				ok, w := isExactlyKnown(ob, &known[i], o)
				why = w
				if ok {
					kfHit = &known[i]
					break
				}
			}
		}
		if kfHit != nil {
			lines = append(lines, fmt.Sprintf("KNOWN-FINDING: property=%s %s [%s; %s]", o.prop, kfHit.What, ob.Name, why))
			knownHit = append(knownHit, ob.Name)
			continue
		}
		violations++
		path, reproduced := makeReplay(o, eng, ob, replayDir)
		suffix := ""
		if !reproduced {
			suffix = " no-failing-input-found"
		}
		lines = append(lines, fmt.Sprintf("VIOLATION property=%s replay=%s%s", o.prop, path, suffix))
		fmt.Fprintf(os.Stderr, "  failed obligation %s [%s by %s]: %s (%s)\n", ob.Name, ob.Res.Status, ob.Res.Solver, ob.Desc, ob.Pos)
		exit = 1
	}
	nobl := total
	if cfg.MinObligations > 0 && nobl < cfg.MinObligations && o.only == "" {
		engineErrs = append(engineErrs, fmt.Sprintf("vacuity: only %d obligations generated, baseline expects at least %d", nobl, cfg.MinObligations))
	}
	for _, ob := range vacuityFail {
		engineErrs = append(engineErrs, "vacuity: "+ob.Desc+" — preconditions are contradictory ("+ob.Name+")")
	}
	if disagree {
		engineErrs = append(engineErrs, "solver disagreement (see out dir)")
	}
	// evidence
	var funcs, dropped, externs, lemmas []string
	seenD, seenE := map[string]bool{}, map[string]bool{}
	for _, r := range results {
		if r.Contract != nil {
			funcs = append(funcs, r.Name)
		} else if strings.HasPrefix(r.Name, "lemma/") {
			lemmas = append(lemmas, r.Name)
		}
		for _, d := range r.Dropped {
			if !seenD[d] {
				seenD[d] = true
				dropped = append(dropped, d)
			}
		}
		for _, e := range r.Externs {
			if !seenE[e] {
				seenE[e] = true
				externs = append(externs, e)
			}
		}
	}
	sort.Strings(dropped)
	sort.Strings(externs)
	var samples []interface{}
	for i, rec := range recs {
		if i%(len(recs)/6+1) == 0 && len(samples) < 8 {
			samples = append(samples, map[string]interface{}{"obligation": rec.Name, "status": rec.Status, "solver": rec.Solver, "secs": rec.Secs, "smt2": rec.Query, "goal": rec.Desc})
		}
	}
	trusted := append([]string{}, cfg.Trusted...)
	trusted = append(trusted, externs...)
	trusted = append(trusted, "GOARCH=amd64 (int is 64 bit)", "solver soundness (z3 4.8.12, z3 5.1.0, cvc5 1.0.3)", "govc translation of the Go subset (DESIGN.md section 3)")
	cov := map[string]interface{}{
		"obligations":              nobl,
		"discharged":               discharged,
		"checker_cmd":              fmt.Sprintf("govc check -prop %s -tier %s (VC generation over go/ast+go/types from /repo working tree; z3-new/cvc5/z3 portfolio, %ds per obligation)", o.prop, o.tier, o.timeout),
		"trusted_base":             trusted,
		"functions_under_contract": funcs,
		"lemmas_proved":            lemmas,
		"by_solver":                bySolver,
		"solver_seconds":           solverSecs,
		"samples":                  samples,
		"not_decided":              cfg.NotDecided,
		"meta_arguments":           cfg.Meta,
		"translation_dropped":      dropped,
		"assume_scan":              map[string]interface{}{"trusted_clauses_in_contract_files": assumeScan},
		"vacuity":                  map[string]interface{}{"probes_sat": countProbes(obls, "sat"), "probes_unknown": len(vacuityUnknown), "probes_unsat": len(vacuityFail)},
		"dead_exits":               deadExits,
		"known_findings_hit":       knownHit,
		"failed_obligations":       names(failed),
		"engine_errors":            engineErrs,
	}
	ev := Evidence{PropertyID: o.prop, Tier: o.tier, Seed: o.seed, Level: "proof", Coverage: cov, WallS: time.Since(t0).Seconds(), Violations: violations}
	ev.Assumptions = append(ev.Assumptions, trusted...)
	for _, m := range cfg.Meta {
		ev.Assumptions = append(ev.Assumptions, "meta-argument (not machine checked): "+m)
	}
	for _, pkg := range eng.roots {
		if cs := eng.csByPkg[pkg.PkgPath]; cs != nil {
			for _, a := range cs.Assumes {
				ev.Assumptions = append(ev.Assumptions, pkg.PkgPath+": "+a)
			}
		}
	}
	evDir := filepath.Join(o.verif, "evidence")
	os.MkdirAll(evDir, 0o755)
	if o.only == "" {
		b, _ := json.MarshalIndent(ev, "", " ")
		os.WriteFile(filepath.Join(evDir, o.prop+".json"), b, 0o644)
	}
	rb, _ := json.MarshalIndent(recs, "", " ")
	os.WriteFile(filepath.Join(o.out, "obligations.json"), rb, 0o644)
	for _, l := range lines {
		fmt.Println(l)
	}
	fmt.Printf("%s tier=%s: %d obligations, %d discharged, %d failed (%d known), %d functions, %d lemmas, %.1fs\n", o.prop, o.tier, nobl, discharged, len(failed), len(knownHit), len(funcs), len(lemmas), time.Since(t0).Seconds())
	for _, d := range deadExits {
		fmt.Fprintln(os.Stderr, "WARNING: unreachable exit (its obligations hold vacuously):", d)
	}
	if len(engineErrs) > 0 {
		for _, e := range engineErrs {
			fmt.Fprintln(os.Stderr, "ENGINE-ERROR:", e)
		}
		if exit == 0 {
			return 2
		}
	}
	return exit
}

func countProbes(obls []*Obligation, st string) int {
	n := 0
	for _, ob := range obls {
		if ob.Expect == "sat" && ob.Res.Status == st {
			n++
		}
	}
	return n
}

func names(obs []*Obligation) []string {
	var out []string
	for _, o := range obs {
		out = append(out, o.Name+" ["+o.Res.Status+"]")
	}
	return out
}
