package main

// Symbolic evaluation of Go expressions over the typed AST.

import (
	"strings"
	"fmt"
	"go/ast"
	"go/constant"
	"go/token"
	"go/types"
	"math/big"
)

func (fc *FnCtx) info() *types.Info { return fc.pkg.TypesInfo }

func (fc *FnCtx) typeOf(e ast.Expr) types.Type {
	if tv, ok := fc.info().Types[e]; ok && tv.Type != nil {
		return tv.Type
	}
	if id, ok := e.(*ast.Ident); ok {
		if o := fc.info().ObjectOf(id); o != nil {
			return o.Type()
		}
	}
	fc.fail(e.Pos(), "no type for expression")
	return nil
}

// eval1 evaluates to exactly one value.
func (fc *FnCtx) eval1(st *State, e ast.Expr) Val {
	vs := fc.eval(st, e)
	if len(vs) != 1 {
		fc.fail(e.Pos(), "expected single value, got %d", len(vs))
	}
	return vs[0]
}

// evalTyped evaluates and coerces an untyped constant to the expression's recorded type.
func (fc *FnCtx) evalTo(st *State, e ast.Expr, to types.Type) Val {
	v := fc.eval1(st, e)
	return fc.assignConv(v, to)
}

// assignConv converts v for assignment to a location of type `to` (untyped constants, interface boxing).
func (fc *FnCtx) assignConv(v Val, to types.Type) Val {
	if to == nil {
		return v
	}
	if v.K != nil && isUntyped(v.Ty) || isUntyped(v.Ty) {
		if _, isIface := to.Underlying().(*types.Interface); isIface {
			if b := basicOf(v.Ty); b != nil && b.Kind() == types.UntypedNil {
				return fc.zero(to)
			}
			return fc.box(fc.coerce(v, types.Default(v.Ty)), to)
		}
		return fc.coerce(v, to)
	}
	if _, toTP := to.(*types.TypeParam); toTP {
		return Val{T: v.T, Ty: to, K: v.K} // a value of type parameter T stays in T's own sort
	}
	if _, isIface := to.Underlying().(*types.Interface); isIface {
		_, fromTP := v.Ty.(*types.TypeParam)
		if _, fromIface := v.Ty.Underlying().(*types.Interface); !fromIface || fromTP {
			return fc.box(v, to) // also boxes a type-parameter value (its own sort) into the interface sort
		}
		return Val{T: v.T, Ty: to}
	}
	return Val{T: v.T, Ty: to, K: v.K}
}

func (fc *FnCtx) eval(st *State, e ast.Expr) []Val {
	// constants first: go/types has already folded them
	if tv, ok := fc.info().Types[e]; ok && tv.Value != nil {
		return []Val{fc.constVal(tv.Value, tv.Type)}
	}
	switch x := e.(type) {
	case *ast.ParenExpr:
		return fc.eval(st, x.X)
	case *ast.Ident:
		return []Val{fc.evalIdent(st, x)}
	case *ast.BasicLit:
		fc.fail(x.Pos(), "literal without constant value")
	case *ast.UnaryExpr:
		switch x.Op {
		case token.AND:
			return []Val{fc.addrOf(st, x.X)}
		case token.ARROW:
			return fc.chanRecv(st, x)
		}
		a := fc.eval1(st, x.X)
		r := fc.unop(x.Op, a, st, x.Pos())
		r.Ty = fc.typeOf(e)
		if r.K != nil && r.T == "" {
			r = fc.coerce(r, r.Ty)
		}
		return []Val{r}
	case *ast.BinaryExpr:
		return []Val{fc.evalBinary(st, x)}
	case *ast.CallExpr:
		return fc.evalCall(st, x)
	case *ast.SelectorExpr:
		return []Val{fc.evalSelector(st, x)}
	case *ast.IndexExpr:
		return fc.evalIndex(st, x, false)
	case *ast.SliceExpr:
		return []Val{fc.evalSliceExpr(st, x)}
	case *ast.StarExpr:
		p := fc.eval1(st, x.X)
		return []Val{fc.deref(st, p, x.Pos())}
	case *ast.CompositeLit:
		return []Val{fc.evalCompositeLit(st, x, false)}
	case *ast.FuncLit:
		return []Val{fc.funcLitVal(st, x)}
	case *ast.TypeAssertExpr:
		return fc.evalTypeAssert(st, x, false)
	}
	fc.fail(e.Pos(), "unsupported expression %T", e)
	return nil
}

func (fc *FnCtx) evalIdent(st *State, id *ast.Ident) Val {
	obj := fc.info().ObjectOf(id)
	switch o := obj.(type) {
	case *types.Nil:
		return Val{T: "0", Ty: types.Typ[types.UntypedNil]}
	case *types.Const:
		return fc.constVal(o.Val(), o.Type())
	case *types.Var:
		if v, ok := st.vars[o]; ok {
			return v
		}
		if o.Pkg() != nil && o.Parent() == o.Pkg().Scope() {
			return fc.readGlobal(st, o)
		}
		fc.fail(id.Pos(), "variable %s has no symbolic value (declared outside the translated region?)", id.Name)
	case *types.Func:
		n := sym("fn$" + o.FullName())
		fc.declareOnce(n, fmt.Sprintf("(declare-fun %s () Int)", n))
		return Val{T: n, Ty: o.Type()}
	}
	if id.Name == "_" {
		fc.fail(id.Pos(), "blank identifier read")
	}
	fc.fail(id.Pos(), "unsupported identifier %s (%T)", id.Name, obj)
	return Val{}
}

func (fc *FnCtx) readGlobal(st *State, o *types.Var) Val {
	key := fc.globalKey(o)
	t := fc.heapGet(st, key, fc.sortOf(o.Type()))
	if _, isSlice := o.Type().Underlying().(*types.Slice); isSlice && fc.inSpec == 0 {
		// a package-level slice variable holds a real slice header
		fc.assume(st, fc.wellFormed(t, o.Type()))
	}
	return Val{T: t, Ty: o.Type()}
}

func (fc *FnCtx) evalBinary(st *State, x *ast.BinaryExpr) Val {
	if x.Op == token.LAND || x.Op == token.LOR {
		a := fc.eval1(st, x.X)
		// right operand is evaluated only when needed: its obligations are guarded
		sub := st.clone()
		if x.Op == token.LAND {
			sub.pc = fc.define("pc", "Bool", and(st.pc, a.T))
		} else {
			sub.pc = fc.define("pc", "Bool", and(st.pc, not(a.T)))
		}
		b := fc.eval1(sub, x.Y)
		// side effects of the right operand on state are merged back conditionally
		fc.adoptConditional(st, sub, a.T, x.Op == token.LAND)
		if x.Op == token.LAND {
			return Val{T: and(a.T, b.T), Ty: fc.typeOf(x)}
		}
		return Val{T: or(a.T, b.T), Ty: fc.typeOf(x)}
	}
	a := fc.eval1(st, x.X)
	b := fc.eval1(st, x.Y)
	// comparisons against nil for slices / interfaces / funcs
	if x.Op == token.EQL || x.Op == token.NEQ {
		if r, ok := fc.nilCompare(a, b); ok {
			if x.Op == token.NEQ {
				r = not(r)
			}
			return Val{T: r, Ty: fc.typeOf(x)}
		}
		// interface vs concrete comparison
		_, ai := a.Ty.Underlying().(*types.Interface)
		_, bi := b.Ty.Underlying().(*types.Interface)
		if ai && !bi && !isUntyped(b.Ty) {
			b = fc.box(b, a.Ty)
		} else if bi && !ai && !isUntyped(a.Ty) {
			a = fc.box(a, b.Ty)
		}
	}
	r := fc.binop(x.Op, a, b, st, x.Pos())
	r.Ty = fc.typeOf(x)
	if r.K != nil && r.T == "" {
		r = fc.coerce(r, r.Ty)
	}
	return r
}

func isNilVal(v Val) bool {
	b := basicOf(v.Ty)
	return b != nil && b.Kind() == types.UntypedNil
}

func (fc *FnCtx) nilCompare(a, b Val) (string, bool) {
	if isNilVal(b) {
		a, b = b, a
	}
	if !isNilVal(a) {
		return "", false
	}
	if isNilVal(b) {
		return "true", true
	}
	switch b.Ty.Underlying().(type) {
	case *types.Slice:
		return app("=", app("s-arr", b.T), "0"), true
	case *types.Interface:
		fc.ifaceSort()
		return app("=", b.T, "iface.nil"), true
	default:
		return app("=", b.T, "0"), true
	}
}

// adoptConditional merges the state effects of a conditionally evaluated sub-expression.
func (fc *FnCtx) adoptConditional(st, sub *State, cond string, whenTrue bool) {
	c := cond
	if !whenTrue {
		c = not(cond)
	}
	for k, v := range sub.heap {
		old, had := st.heap[k]
		if had && old == v {
			continue
		}
		s, known := fc.heapSort[k]
		if !known {
			st.heap[k] = ""
			continue
		}
		st.heap[k] = fc.define(k, s, ite(c, v, fc.heapGet(st, k, s)))
	}
	for k, v := range sub.vars {
		if old, ok := st.vars[k]; ok && old.T != v.T {
			st.vars[k] = Val{T: fc.define(k.Name(), fc.sortOf(v.Ty), ite(c, v.T, old.T)), Ty: v.Ty}
		}
	}
}

// ---- selectors ----

func (fc *FnCtx) evalSelector(st *State, x *ast.SelectorExpr) Val {
	if sel, ok := fc.info().Selections[x]; ok {
		switch sel.Kind() {
		case types.FieldVal:
			base := fc.eval1(st, x.X)
			return fc.selectPath(st, base, sel.Index(), x.Pos())
		case types.MethodVal:
			n := sym("methodval$" + sel.Obj().(*types.Func).FullName())
			fc.declareOnce(n, fmt.Sprintf("(declare-fun %s () Int)", n))
			return Val{T: n, Ty: sel.Type()}
		}
		fc.fail(x.Pos(), "unsupported selection kind")
	}
	// qualified identifier pkg.Name
	obj := fc.info().ObjectOf(x.Sel)
	switch o := obj.(type) {
	case *types.Const:
		return fc.constVal(o.Val(), o.Type())
	case *types.Var:
		return fc.readGlobal(st, o)
	case *types.Func:
		n := sym("fn$" + o.FullName())
		fc.declareOnce(n, fmt.Sprintf("(declare-fun %s () Int)", n))
		return Val{T: n, Ty: o.Type()}
	}
	fc.fail(x.Pos(), "unsupported selector")
	return Val{}
}

// selectPath follows a field index path (with implicit dereferences / embedded fields).
func (fc *FnCtx) selectPath(st *State, base Val, path []int, pos token.Pos) Val {
	cur := base
	for _, idx := range path {
		cur = fc.fieldOf(st, cur, idx, pos)
	}
	return cur
}

func structOf(t types.Type) (*types.Struct, types.Type, bool) {
	// returns struct, the named owner type, and whether t is a pointer to it
	if p, ok := t.Underlying().(*types.Pointer); ok {
		s, _ := p.Elem().Underlying().(*types.Struct)
		return s, p.Elem(), true
	}
	s, _ := t.Underlying().(*types.Struct)
	return s, t, false
}

func (fc *FnCtx) fieldOf(st *State, base Val, idx int, pos token.Pos) Val {
	s, owner, isPtr := structOf(base.Ty)
	if s == nil {
		fc.fail(pos, "field selection on non-struct %s", base.Ty)
	}
	f := s.Field(idx)
	if isPtr {
		fc.assertNonNil(st, base, pos)
		fc.checkGuard(st, owner, f.Name(), base.T, false, pos)
		key := fc.fieldKey(owner, f.Name())
		arr := fc.heapGet(st, key, fmt.Sprintf("(Array Int %s)", fc.sortOf(f.Type())))
		t := app("select", arr, base.T)
		if fc.inSpec == 0 && isInteger(f.Type()) && !fc.isBVType(f.Type()) {
			// a stored machine integer is within the range of its type
			fc.assume(st, fc.rangeFact(t, f.Type()))
		}
		if _, isSlice := f.Type().Underlying().(*types.Slice); isSlice && fc.inSpec == 0 {
			// a stored slice header is well formed (0 <= len <= cap, ...)
			fc.assume(st, fc.wellFormed(t, f.Type()))
		}
		return Val{T: t, Ty: f.Type()}
	}
	ss := fc.sortOf(owner)
	if !fc.isDatatype(owner) {
		// opaque foreign struct: field read is uninterpreted
		fn := sym("fld$" + fc.typeName(owner) + "$" + f.Name())
		fc.declareOnce(fn, fmt.Sprintf("(declare-fun %s (%s) %s)", fn, ss, fc.sortOf(f.Type())))
		return Val{T: app(fn, base.T), Ty: f.Type()}
	}
	return Val{T: app(fc.fieldSel(ss, f.Name()), base.T), Ty: f.Type()}
}

func (fc *FnCtx) isDatatype(t types.Type) bool {
	st, ok := t.Underlying().(*types.Struct)
	if !ok || st.NumFields() == 0 {
		return false
	}
	if n, ok := t.(*types.Named); ok && n.Obj().Pkg() != nil && !hasPrefix(n.Obj().Pkg().Path(), fc.eng.modPath) {
		return false
	}
	return true
}

func (fc *FnCtx) assertNonNil(st *State, p Val, pos token.Pos) {
	if fc.inSpec > 0 {
		return
	}
	fc.assert(st, not(app("=", p.T, "0")), "nil", "pointer is non-nil at dereference", pos)
}

func (fc *FnCtx) deref(st *State, p Val, pos token.Pos) Val {
	pt, ok := p.Ty.Underlying().(*types.Pointer)
	if !ok {
		fc.fail(pos, "dereference of non-pointer")
	}
	fc.assertNonNil(st, p, pos)
	if s, ok := pt.Elem().Underlying().(*types.Struct); ok && fc.isDatatype(pt.Elem()) {
		// load whole struct value from the per-field heap
		var fs []string
		for i := 0; i < s.NumFields(); i++ {
			fs = append(fs, fc.fieldOf(st, p, i, pos).T)
		}
		return Val{T: app(fc.structCtor(pt.Elem()), fs...), Ty: pt.Elem()}
	}
	key := "P$" + fc.typeName(pt.Elem())
	arr := fc.heapGet(st, key, fmt.Sprintf("(Array Int %s)", fc.sortOf(pt.Elem())))
	t := app("select", arr, p.T)
	if _, isSlice := pt.Elem().Underlying().(*types.Slice); isSlice && fc.inSpec == 0 {
		// a slice header stored behind a pointer is a real slice header (same fact as for a slice-typed field)
		fc.assume(st, fc.wellFormed(t, pt.Elem()))
	}
	return Val{T: t, Ty: pt.Elem()}
}

// addrOf: &x for composite literals (allocation), fields (interior pointer), variables (boxed on demand).
func (fc *FnCtx) addrOf(st *State, e ast.Expr) Val {
	switch x := e.(type) {
	case *ast.ParenExpr:
		return fc.addrOf(st, x.X)
	case *ast.CompositeLit:
		return fc.evalCompositeLit(st, x, true)
	case *ast.SelectorExpr:
		if sel, ok := fc.info().Selections[x]; ok && sel.Kind() == types.FieldVal {
			base := fc.eval1(st, x.X)
			path := sel.Index()
			if len(path) > 1 {
				base = fc.selectPath(st, base, path[:len(path)-1], x.Pos())
			}
			return fc.fieldAddr(st, base, path[len(path)-1], x.Pos())
		}
	case *ast.Ident:
		if o, ok := fc.info().ObjectOf(x).(*types.Var); ok {
			// address of a variable: model the variable as a heap cell from now on is not supported;
			// we give it a stable abstract address and keep the value in the var map (sound only if
			// the pointer is used for identity / passed to externs that do not write through it).
			n := sym(fmt.Sprintf("addr$%s$%d", o.Name(), o.Pos()))
			fc.declareOnce(n, fmt.Sprintf("(declare-fun %s () Int)", n))
			fc.declareOnce(n+"nz", fmt.Sprintf("(assert (not (= %s 0)))", n))
			fc.ghostDefaults(st, n, o.Type())
			fc.dropped["address-of local "+o.Name()+" (abstract address)"] = true
			return Val{T: n, Ty: types.NewPointer(o.Type())}
		}
	case *ast.IndexExpr:
		// &s[i]: abstract address derived from array id and index
		base := fc.eval1(st, x.X)
		idx := fc.eval1(st, x.Index)
		if _, ok := base.Ty.Underlying().(*types.Slice); ok {
			idx = fc.coerce(idx, tInt)
			fc.declareOnce("elem.addr", fmt.Sprintf("(declare-fun elem.addr (Int %s) Int)", fc.I()))
			return Val{T: app("elem.addr", app("s-arr", base.T), fc.addIdx(app("s-off", base.T), idx.T)), Ty: types.NewPointer(fc.typeOf(x))}
		}
	}
	fc.fail(e.Pos(), "unsupported address-of expression")
	return Val{}
}

// fieldAddr gives the address of field idx of *base (base is a pointer to struct).
func (fc *FnCtx) fieldAddr(st *State, base Val, idx int, pos token.Pos) Val {
	s, owner, isPtr := structOf(base.Ty)
	if s == nil || !isPtr {
		fc.fail(pos, "address of field of non-pointer struct value (outside subset)")
	}
	f := s.Field(idx)
	fn := sym("addr$" + fc.ownerName(owner) + "$" + f.Name())
	if !fc.declared[fn] {
		fc.declared[fn] = true

		fc.addPre(fmt.Sprintf("(declare-fun %s (Int) Int)", fn))
		fc.addAxiom(fn, fmt.Sprintf("(assert (forall ((p Int)) (! (not (= (%s p) 0)) :pattern ((%s p)))))", fn, fn))
		fc.addAxiom(fn, fmt.Sprintf("(assert (forall ((p Int) (q Int)) (! (=> (= (%s p) (%s q)) (= p q)) :pattern ((%s p) (%s q)))))", fn, fn, fn, fn))
		// addresses of different fields are different
		for _, g := range fc.addrFns {
			fc.addAxiom(fn, fmt.Sprintf("(assert (forall ((p Int) (q Int)) (! (not (= (%s p) (%s q))) :pattern ((%s p) (%s q)))))", fn, g, fn, g))
		}
		fc.addrFns = append(fc.addrFns, fn)
	}
	return Val{T: app(fn, base.T), Ty: types.NewPointer(f.Type())}
}

// ---- indexing ----

func (fc *FnCtx) addIdx(a, b string) string {
	if fc.idxBV() {
		if a == fc.idxLit(0) {
			return b
		}
		return app("bvadd", a, b)
	}
	if a == "0" {
		return b
	}
	return app("+", a, b)
}
func (fc *FnCtx) subIdx(a, b string) string {
	if fc.idxBV() {
		return app("bvsub", a, b)
	}
	return app("-", a, b)
}
func (fc *FnCtx) leIdx(a, b string) string {
	if fc.idxBV() {
		return app("bvsle", a, b)
	}
	return app("<=", a, b)
}
func (fc *FnCtx) ltIdx(a, b string) string {
	if fc.idxBV() {
		return app("bvslt", a, b)
	}
	return app("<", a, b)
}

// toIdx converts an integer value of any Go integer type to the index sort (as Go does: to int).
func (fc *FnCtx) toIdx(v Val) string {
	if v.K != nil && (isUntyped(v.Ty) || v.T == "") {
		return fc.constVal(v.K, tInt).T
	}
	if !isInteger(v.Ty) && !fc.idxBV() {
		// ghost arrays may be indexed by references (pointers are Int)
		switch v.Ty.Underlying().(type) {
		case *types.Pointer, *types.Map, *types.Chan:
			return v.T
		}
		if isNilVal(v) {
			return "0"
		}
	}
	return fc.convert(v, tInt, token.NoPos).T
}

func (fc *FnCtx) inBounds(i, n string, v Val) string {
	// 0 <= i < n with i already converted to index sort; for unsigned sources wider semantics:
	if fc.idxBV() && isUnsigned(v.Ty) && intWidth(v.Ty) == 64 {
		return app("bvult", i, n)
	}
	return and(fc.leIdx(fc.idxLit(0), i), fc.ltIdx(i, n))
}

func (fc *FnCtx) sliceElem(st *State, s Val, i string, elem types.Type) string {
	key, sort := fc.elemsKey(elem)
	e := fc.heapGet(st, key, sort)
	if fc.cs != nil && fc.cs.IndexElt {
		// s[i] as an application with i as its own argument: quantifier patterns over s[i] then match any
		// index expression (E-matching is syntactic; (select c (+ off ?i)) does not match (select c (+ off n 4)))
		return app(fc.eltFn(elem), app("select", e, app("s-arr", s.T)), app("s-off", s.T), i)
	}
	return app("select", app("select", e, app("s-arr", s.T)), fc.addIdx(app("s-off", s.T), i))
}

// eltFn declares elt$T(content, base, i) == content[base+i].
func (fc *FnCtx) eltFn(elem types.Type) string {
	es := fc.sortOf(elem)
	fn := sym("elt$" + fc.typeName(elem))
	I := fc.I()
	fc.declareOnce(fn, fmt.Sprintf("(declare-fun %s ((Array %s %s) %s %s) %s)", fn, I, es, I, I, es))
	fc.declareAxiomOnce(fn+".def", fn, fmt.Sprintf("(assert (forall ((c (Array %s %s)) (b %s) (i %s)) (! (= (%s c b i) (select c %s)) :pattern ((%s c b i)))))", I, es, I, I, fn, fc.addIdx("b", "i"), fn))
	return fn
}

func (fc *FnCtx) evalIndex(st *State, x *ast.IndexExpr, commaOk bool) []Val {
	// generic function instantiation?
	if tv, ok := fc.info().Types[x.X]; ok {
		if _, isSig := tv.Type.Underlying().(*types.Signature); isSig {
			return fc.eval(st, x.X)
		}
	}
	if v, ok := fc.tableRead(st, x); ok {
		return []Val{v}
	}
	base := fc.eval1(st, x.X)
	bt := base.Ty.Underlying()
	if p, ok := bt.(*types.Pointer); ok { // pointer to array
		base = fc.deref(st, base, x.Pos())
		bt = p.Elem().Underlying()
	}
	switch t := bt.(type) {
	case *types.Slice:
		iv := fc.eval1(st, x.Index)
		i := fc.toIdx(iv)
		if fc.inSpec == 0 {
			fc.assert(st, fc.inBounds(i, app("s-len", base.T), iv), "bounds", "slice index in range", x.Pos())
		}
		return []Val{{T: fc.sliceElem(st, base, i, t.Elem()), Ty: t.Elem()}}
	case *types.Array:
		iv := fc.eval1(st, x.Index)
		i := fc.toIdx(iv)
		if fc.inSpec == 0 {
			fc.assert(st, fc.inBounds(i, fc.idxLit(t.Len()), iv), "bounds", "array index in range", x.Pos())
		}
		return []Val{{T: app("select", base.T, i), Ty: t.Elem()}}
	case *types.Basic: // string
		iv := fc.eval1(st, x.Index)
		i := fc.toIdx(iv)
		if fc.inSpec == 0 {
			fc.assert(st, fc.inBounds(i, app("gs.len", base.T), iv), "bounds", "string index in range", x.Pos())
		}
		return []Val{{T: app("gs.at", base.T, i), Ty: tUint8}}
	case *types.Map:
		k := fc.evalTo(st, x.Index, t.Key())
		v, has := fc.mapGet(st, base, k, t)
		if commaOk {
			return []Val{v, {T: has, Ty: tBool}}
		}
		return []Val{v}
	}
	fc.fail(x.Pos(), "unsupported index base %s", base.Ty)
	return nil
}

func (fc *FnCtx) mapKeys(t *types.Map) (vk, hk, vs, hs string) {
	ks, es := fc.sortOf(t.Key()), fc.sortOf(t.Elem())
	n := fc.typeName(t.Key()) + "$" + fc.typeName(t.Elem())
	return "MV$" + n, "MH$" + n, fmt.Sprintf("(Array Int (Array %s %s))", ks, es), fmt.Sprintf("(Array Int (Array %s Bool))", ks)
}

func (fc *FnCtx) mapGet(st *State, m Val, k Val, t *types.Map) (Val, string) {
	vk, hk, vs, hs := fc.mapKeys(t)
	has := app("select", app("select", fc.heapGet(st, hk, hs), m.T), k.T)
	raw := app("select", app("select", fc.heapGet(st, vk, vs), m.T), k.T)
	// absent keys read as the zero value (also for the nil map)
	v := ite(has, raw, fc.zero(t.Elem()).T)
	return Val{T: v, Ty: t.Elem()}, has
}

func (fc *FnCtx) mapSet(st *State, m Val, k Val, v Val, t *types.Map) {
	vk, hk, vs, hs := fc.mapKeys(t)
	H, V := fc.heapGet(st, hk, hs), fc.heapGet(st, vk, vs)
	fc.heapSet(st, hk, hs, app("store", H, m.T, app("store", app("select", H, m.T), k.T, "true")))
	fc.heapSet(st, vk, vs, app("store", V, m.T, app("store", app("select", V, m.T), k.T, v.T)))
}

func (fc *FnCtx) mapDelete(st *State, m Val, k Val, t *types.Map) {
	_, hk, _, hs := fc.mapKeys(t)
	H := fc.heapGet(st, hk, hs)
	fc.heapSet(st, hk, hs, app("store", H, m.T, app("store", app("select", H, m.T), k.T, "false")))
}

func (fc *FnCtx) evalSliceExpr(st *State, x *ast.SliceExpr) Val {
	base := fc.eval1(st, x.X)
	bt := base.Ty.Underlying()
	zero := fc.idxLit(0)
	lo := zero
	var loV, hiV Val
	if x.Low != nil {
		loV = fc.eval1(st, x.Low)
		lo = fc.toIdx(loV)
	}
	switch t := bt.(type) {
	case *types.Slice:
		hi := app("s-len", base.T)
		if x.High != nil {
			hiV = fc.eval1(st, x.High)
			hi = fc.toIdx(hiV)
		}
		capT := app("s-cap", base.T)
		mx := capT
		if x.Max != nil {
			mx = fc.toIdx(fc.eval1(st, x.Max))
			fc.assert(st, and(fc.leIdx(hi, mx), fc.leIdx(mx, capT)), "bounds", "slice max in range", x.Pos())
		}
		fc.assert(st, and(fc.leIdx(zero, lo), fc.leIdx(lo, hi), fc.leIdx(hi, mx)), "bounds", "slice bounds 0 <= lo <= hi <= cap", x.Pos())
		newOff := fc.addIdx(app("s-off", base.T), lo)
		if _, lit := new(big.Int).SetString(lo, 10); !lit && fc.cs != nil && fc.cs.IndexElt && fc.inSpec == 0 {
			// symbolic lower bound: name the new offset by an atomic constant so that the view-shift identity
			// elt(c, newoff, i) == elt(c, off, i+lo) has a pattern the solver's arithmetic normal form cannot break
			no := fc.fresh("voff", fc.I())
			fc.assume(st, app("=", no, newOff))
			fn := fc.eltFn(t.Elem())
			I := fc.I()
			fc.assume(st, fmt.Sprintf("(forall ((c (Array %s %s)) (i %s)) (! (= (%s c %s i) (%s c %s %s)) :pattern ((%s c %s i))))",
				I, fc.sortOf(t.Elem()), I, fn, no, fn, app("s-off", base.T), fc.addIdx("i", lo), fn, no))
			newOff = no
		}
		t2 := app("mk-slice", app("s-arr", base.T), newOff, fc.subIdx(hi, lo), fc.subIdx(mx, lo))
		fc.viewShift(st, base, lo, t.Elem())
		return Val{T: fc.define("slice", "Slice", t2), Ty: fc.typeOf(x)}
	case *types.Basic: // string
		hi := app("gs.len", base.T)
		if x.High != nil {
			hi = fc.toIdx(fc.eval1(st, x.High))
		}
		fc.assert(st, and(fc.leIdx(zero, lo), fc.leIdx(lo, hi), fc.leIdx(hi, app("gs.len", base.T))), "bounds", "string slice bounds", x.Pos())
		return Val{T: fc.strSub(base.T, lo, hi), Ty: fc.typeOf(x)}
	case *types.Array:
		fc.fail(x.Pos(), "slicing an array value (only via pointer or addressable local: outside subset)")
	}
	fc.fail(x.Pos(), "unsupported slice expression on %s", base.Ty)
	return Val{}
}

// ---- allocation ----

func (fc *FnCtx) allocRef(st *State, what string) string {
	r := fc.fresh("ref", "Int")
	// fresh: non-nil, distinct from every reference allocated before (allocation counter)
	cnt := fc.heapGet(st, "$alloc", "Int")
	fc.assume(st, app(">", r, cnt))
	fc.assume(st, app(">", r, "0"))
	fc.heapSet(st, "$alloc", "Int", r)
	return r
}

// wellFormedRef: references reachable from the entry state are below the allocation counter.
func (fc *FnCtx) assumeOldRef(st *State, r string) {
	cnt := fc.heapGet(fc.entry, "$alloc", "Int")
	fc.assumeGlobal(app("<=", r, cnt))
}

func (fc *FnCtx) evalCompositeLit(st *State, x *ast.CompositeLit, addr bool) Val {
	ty := fc.typeOf(x)
	switch u := ty.Underlying().(type) {
	case *types.Struct:
		vals := make([]Val, u.NumFields())
		for i := range vals {
			vals[i] = fc.zero(u.Field(i).Type())
		}
		for i, el := range x.Elts {
			if kv, ok := el.(*ast.KeyValueExpr); ok {
				name := kv.Key.(*ast.Ident).Name
				for j := 0; j < u.NumFields(); j++ {
					if u.Field(j).Name() == name {
						vals[j] = fc.evalTo(st, kv.Value, u.Field(j).Type())
					}
				}
			} else {
				vals[i] = fc.evalTo(st, el, u.Field(i).Type())
			}
		}
		if addr {
			r := fc.allocRef(st, "struct")
			for j := 0; j < u.NumFields(); j++ {
				key := fc.fieldKey(ty, u.Field(j).Name())
				sort := fmt.Sprintf("(Array Int %s)", fc.sortOf(u.Field(j).Type()))
				fc.heapSet(st, key, sort, app("store", fc.heapGet(st, key, sort), r, vals[j].T))
			}
			// declared ghost-field defaults of the new object and of its struct-valued fields (e.g. an embedded
			// zero list.List is the empty list)
			pv := Val{T: r, Ty: types.NewPointer(ty)}
			fc.ghostDefaults(st, r, ty)
			for j := 0; j < u.NumFields(); j++ {
				if _, isNamed := u.Field(j).Type().(*types.Named); isNamed {
					if _, isStruct := u.Field(j).Type().Underlying().(*types.Struct); isStruct && fc.hasGhostDefaults(u.Field(j).Type()) {
						fc.ghostDefaults(st, fc.fieldAddr(st, pv, j, x.Pos()).T, u.Field(j).Type())
					}
				}
			}
			return pv
		}
		if !fc.isDatatype(ty) {
			return fc.zero(ty)
		}
		var ts []string
		for _, v := range vals {
			ts = append(ts, v.T)
		}
		return Val{T: app(fc.structCtor(ty), ts...), Ty: ty}
	case *types.Slice:
		n := int64(len(x.Elts))
		r := fc.allocRef(st, "slice")
		key, sort := fc.elemsKey(u.Elem())
		E := fc.heapGet(st, key, sort)
		inner := app("select", E, r)
		for i, el := range x.Elts {
			if _, ok := el.(*ast.KeyValueExpr); ok {
				fc.fail(el.Pos(), "keyed slice literal")
			}
			v := fc.evalTo(st, el, u.Elem())
			inner = app("store", inner, fc.idxLit(int64(i)), v.T)
		}
		fc.heapSet(st, key, sort, app("store", E, r, inner))
		return Val{T: app("mk-slice", r, fc.idxLit(0), fc.idxLit(n), fc.idxLit(n)), Ty: ty}
	case *types.Array:
		arr := fc.zero(ty).T
		for i, el := range x.Elts {
			if _, ok := el.(*ast.KeyValueExpr); ok {
				fc.fail(el.Pos(), "keyed array literal")
			}
			v := fc.evalTo(st, el, u.Elem())
			arr = app("store", arr, fc.idxLit(int64(i)), v.T)
		}
		return Val{T: arr, Ty: ty}
	case *types.Map:
		m := fc.makeMap(st, u)
		mv := Val{T: m, Ty: ty}
		for _, el := range x.Elts {
			kv := el.(*ast.KeyValueExpr)
			k := fc.evalTo(st, kv.Key, u.Key())
			v := fc.evalTo(st, kv.Value, u.Elem())
			fc.mapSet(st, mv, k, v, u)
		}
		return mv
	}
	fc.fail(x.Pos(), "unsupported composite literal of type %s", ty)
	return Val{}
}

func (fc *FnCtx) makeMap(st *State, t *types.Map) string {
	r := fc.allocRef(st, "map")
	_, hk, _, hs := fc.mapKeys(t)
	H := fc.heapGet(st, hk, hs)
	fc.heapSet(st, hk, hs, app("store", H, r, fmt.Sprintf("((as const (Array %s Bool)) false)", fc.sortOf(t.Key()))))
	// ghost cardinality
	ck := "MC$" + fc.typeName(t.Key()) + "$" + fc.typeName(t.Elem())
	C := fc.heapGet(st, ck, "(Array Int Int)")
	fc.heapSet(st, ck, "(Array Int Int)", app("store", C, r, "0"))
	return r
}

func (fc *FnCtx) makeSlice(st *State, elem types.Type, ln, cp string) string {
	r := fc.allocRef(st, "slice")
	key, sort := fc.elemsKey(elem)
	E := fc.heapGet(st, key, sort)
	z := fmt.Sprintf("((as const (Array %s %s)) %s)", fc.I(), fc.sortOf(elem), fc.zero(elem).T)
	fc.heapSet(st, key, sort, app("store", E, r, z))
	return app("mk-slice", r, fc.idxLit(0), ln, cp)
}

func (fc *FnCtx) funcLitVal(st *State, x *ast.FuncLit) Val {
	n := sym(fmt.Sprintf("closure$%d", x.Pos()))
	fc.declareOnce(n, fmt.Sprintf("(declare-fun %s () Int)", n))
	fc.eng.closures[n] = &closure{lit: x, fc: fc, contract: fc.contract}
	return Val{T: n, Ty: fc.typeOf(x)}
}

func (fc *FnCtx) evalTypeAssert(st *State, x *ast.TypeAssertExpr, commaOk bool) []Val {
	v := fc.eval1(st, x.X)
	to := fc.typeOf(x.Type)
	if _, ok := to.Underlying().(*types.Interface); ok {
		// interface-to-interface assertion: success is unknown (havoc)
		okc := fc.fresh("assertok", "Bool")
		if !commaOk {
			fc.dropped["type assertion to interface may panic (not modelled)"] = true
		}
		return []Val{{T: v.T, Ty: to}, {T: okc, Ty: tBool}}[:map[bool]int{true: 2, false: 1}[commaOk]]
	}
	tag := fc.typeTag(to)
	isT := app("=", app("iface.tag", v.T), fmt.Sprint(tag))
	u := fc.unbox(v, to)
	if commaOk {
		return []Val{{T: ite(isT, u.T, fc.zero(to).T), Ty: to}, {T: isT, Ty: tBool}}
	}
	fc.assert(st, isT, "typeassert", "type assertion succeeds", x.Pos())
	return []Val{u}
}

func (fc *FnCtx) chanRecv(st *State, x *ast.UnaryExpr) []Val {
	v, _ := fc.recvFrom(st, x.X, x.Pos())
	return []Val{v}
}

var _ = constant.MakeInt64
var _ = big.NewInt

// tableRead: a read of a package-level constant table declared with `//@ table`.
func (fc *FnCtx) tableRead(st *State, x *ast.IndexExpr) (Val, bool) {
	id, ok := ast.Unparen(x.X).(*ast.Ident)
	if !ok {
		return Val{}, false
	}
	v, ok := fc.info().ObjectOf(id).(*types.Var)
	if !ok || v.Pkg() == nil || v.Parent() != v.Pkg().Scope() {
		return Val{}, false
	}
	cs := fc.eng.contractsForPkg(v.Pkg())
	if cs == nil {
		return Val{}, false
	}
	tb, ok := cs.Tables[v.Name()]
	if !ok {
		return Val{}, false
	}
	at, ok := v.Type().Underlying().(*types.Array)
	if !ok {
		return Val{}, false
	}
	iv := fc.eval1(st, x.Index)
	if iv.K != nil && (iv.T == "" || isUntyped(iv.Ty)) {
		iv = fc.coerce(iv, tInt)
	}
	env := &SpecEnv{fc: fc, cur: st, old: st, bound: map[string]Val{tb.Var: iv}, home: cs, homePkg: v.Pkg()}
	if fc.inSpec == 0 {
		fc.assert(st, env.evalBool(tb.Guard), "bounds", "table index in range: "+tb.Text, x.Pos())
	}
	val := fc.assignConvSpec(env.eval(tb.Value), at.Elem())
	fc.externsUsed["constant table "+v.Name()+" ("+tb.Text+"): established by init (proved), never written elsewhere (frame obligations); in-range index conversion is value preserving"] = true
	return val, true
}

// ghostDefaults: the ghost fields of a zero-initialised local object (whose address is being taken for the
// first time) have their declared default values.
func (fc *FnCtx) ghostDefaults(st *State, addr string, t types.Type) {
	n, ok := t.(*types.Named)
	if !ok || n.Obj().Pkg() == nil || fc.declared["gd$"+addr] {
		return
	}
	fc.declared["gd$"+addr] = true
	prefix := n.Obj().Pkg().Path() + "." + n.Obj().Name() + "."
	for _, cs := range []*ContractSet{fc.cs, fc.eng.externs} {
		for k, def := range cs.GhostDefault {
			if !strings.HasPrefix(k, prefix) {
				continue
			}
			fname := strings.TrimPrefix(k, prefix)
			gt := fc.resolveType(cs.GhostFlds[k], n.Obj().Pkg())
			key := fc.fieldKey(t, fname)
			arr := fc.heapGet(st, key, fmt.Sprintf("(Array Int %s)", fc.sortOf(gt)))
			e, err := ParseSpec(def)
			if err != nil {
				fc.fail(token.NoPos, "ghost default: %v", err)
			}
			env := &SpecEnv{fc: fc, cur: st, old: st, bound: map[string]Val{}, home: cs, homePkg: n.Obj().Pkg()}
			v := fc.assignConvSpec(env.eval(e), gt)
			fc.assume(st, app("=", app("select", arr, addr), v.T))
		}
	}
}

func (fc *FnCtx) hasGhostDefaults(t types.Type) bool {
	n, ok := t.(*types.Named)
	if !ok || n.Obj().Pkg() == nil {
		return false
	}
	prefix := n.Obj().Pkg().Path() + "." + n.Obj().Name() + "."
	for _, cs := range []*ContractSet{fc.cs, fc.eng.externs} {
		if cs == nil {
			continue
		}
		for k := range cs.GhostDefault {
			if strings.HasPrefix(k, prefix) {
				return true
			}
		}
	}
	return false
}

// viewShift: with `index elt`, reading element i of s[lo:...] is reading element i+lo of s. The two are different
// view terms (E-matching is syntactic), so for a literal non-zero lo the identity is stated for exactly this
// offset term: elt(c, off(s)+lo, i) == elt(c, off(s), i+lo) for every content c and index i. A tautology by the
// definition of elt; it lets facts stated over s fire for reads through the sub-slice.
func (fc *FnCtx) viewShift(st *State, base Val, lo string, elem types.Type) {
	if fc.cs == nil || !fc.cs.IndexElt || st == nil {
		return
	}
	n, ok := new(big.Int).SetString(lo, 10)
	if !ok || n.Sign() == 0 {
		return
	}
	off := app("s-off", base.T)
	key := "viewshift$" + off + "$" + lo
	if fc.declared[key] {
		return
	}
	fc.declared[key] = true
	fn := fc.eltFn(elem)
	I := fc.I()
	fc.assume(st, fmt.Sprintf("(forall ((c (Array %s %s)) (i %s)) (! (= (%s c %s i) (%s c %s %s)) :pattern ((%s c %s i))))",
		I, fc.sortOf(elem), I, fn, fc.addIdx(off, lo), fn, off, fc.addIdx("i", lo), fn, fc.addIdx(off, lo)))
}

// strSub: the substring s[lo:hi] as an uninterpreted term with its length and character axioms.
func (fc *FnCtx) strSub(s, lo, hi string) string {
	fc.declareOnce("gs.sub", fmt.Sprintf("(declare-fun gs.sub (Str %s %s) Str)", fc.I(), fc.I()))
	fc.declareAxiomOnce("gs.sub.ax", "gs.sub", fmt.Sprintf("(assert (forall ((s Str) (a %s) (b %s)) (! (=> (and %s %s) (= (gs.len (gs.sub s a b)) %s)) :pattern ((gs.sub s a b)))))", fc.I(), fc.I(), fc.leIdx(fc.idxLit(0), "a"), fc.leIdx("a", "b"), fc.subIdx("b", "a")))
	// characters of a substring: only inside its range (unguarded, two empty substrings taken at different offsets of
	// one string - both equal to the unique empty string - would have to agree on their "character 0")
	fc.declareAxiomOnce("gs.sub.ax2", "gs.sub", fmt.Sprintf("(assert (forall ((s Str) (a %s) (b %s) (i %s)) (! (=> (and %s %s %s %s) (= (gs.at (gs.sub s a b) i) (gs.at s %s))) :pattern ((gs.at (gs.sub s a b) i)))))", fc.I(), fc.I(), fc.I(), fc.leIdx(fc.idxLit(0), "a"), fc.leIdx("a", "b"), fc.leIdx(fc.idxLit(0), "i"), fc.ltIdx("i", fc.subIdx("b", "a")), fc.addIdx("a", "i")))
	return app("gs.sub", s, lo, hi)
}
