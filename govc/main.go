package main

import (
	"encoding/json"
	"flag"
	"fmt"
	"os"
	"path/filepath"
	"sort"
	"strings"
	"sync"
	"time"
)

type PropConfig struct {
	ID         string   `json:"id"`
	Packages   []string `json:"packages"`
	Trusted    []string `json:"trusted"`
	NotDecided []string `json:"not_decided"`
	Meta       []string `json:"meta_arguments"`
	LockSweep  []string `json:"lock_sweep"` // packages whose every function gets lock-held obligations
	Bounded    []BoundedCfg `json:"bounded"`
	MinObligations int  `json:"min_obligations"`
}

type BoundedCfg struct {
	Name string `json:"name"`
	Cmd  string `json:"cmd"`
	Bound string `json:"bound"`
}

func main() {
	if len(os.Args) < 2 {
		fmt.Fprintln(os.Stderr, "usage: govc check|dump ...")
		os.Exit(2)
	}
	switch os.Args[1] {
	case "check":
		os.Exit(cmdCheck(os.Args[2:]))
	default:
		fmt.Fprintln(os.Stderr, "unknown command")
		os.Exit(2)
	}
}

type checkOpts struct {
	prop, tier, repo, verif, out string
	seed                          int
	timeout                       int
	only                          string
	keep                          bool
	jobs                          int
	noReplay                      bool
}

func cmdCheck(args []string) int {
	fs := flag.NewFlagSet("check", flag.ExitOnError)
	var o checkOpts
	fs.StringVar(&o.prop, "prop", "", "property id")
	fs.StringVar(&o.tier, "tier", "quick", "quick|thorough")
	fs.StringVar(&o.repo, "repo", "/repo", "repository")
	fs.StringVar(&o.verif, "verif", "/verif", "verif dir")
	fs.StringVar(&o.out, "out", "", "output dir (default <verif>/out/<prop>)")
	fs.IntVar(&o.seed, "seed", 0, "seed")
	fs.IntVar(&o.timeout, "timeout", 0, "per-obligation solver timeout (s)")
	fs.StringVar(&o.only, "only", "", "only functions whose name contains this")
	fs.IntVar(&o.jobs, "jobs", 5, "parallel obligations")
	fs.BoolVar(&o.noReplay, "noreplay", false, "skip replay")
	fs.Parse(args)
	if o.out == "" {
		o.out = filepath.Join(o.verif, "out", o.prop)
	}
	if o.timeout == 0 {
		o.timeout = 10
		if o.tier == "thorough" {
			o.timeout = 120
		}
	}
	return runCheck(&o)
}

type oblRecord struct {
	Name    string  `json:"name"`
	Kind    string  `json:"kind"`
	Status  string  `json:"status"`
	Solver  string  `json:"solver"`
	Secs    float64 `json:"secs"`
	Query   string  `json:"query,omitempty"`
	Desc    string  `json:"desc,omitempty"`
	Pos     string  `json:"pos,omitempty"`
}

func runCheck(o *checkOpts) int {
	t0 := time.Now()
	cfgPath := filepath.Join(o.verif, "props", o.prop+".json")
	var cfg PropConfig
	b, err := os.ReadFile(cfgPath)
	if err != nil {
		fmt.Fprintln(os.Stderr, "ENGINE-ERROR:", err)
		return 2
	}
	if err := json.Unmarshal(b, &cfg); err != nil {
		fmt.Fprintln(os.Stderr, "ENGINE-ERROR:", cfgPath, err)
		return 2
	}
	os.RemoveAll(o.out)
	os.MkdirAll(o.out, 0o755)
	eng := NewEngine(o.repo, o.verif)
	if err := eng.Load(cfg.Packages...); err != nil {
		fmt.Fprintln(os.Stderr, "ENGINE-ERROR: load:", err)
		return 2
	}
	var results []*FuncResult
	var engineErrs []string
	assumeScan := 0
	for _, pkg := range eng.roots {
		var cs *ContractSet
		func() {
			defer func() {
				if r := recover(); r != nil {
					if ve, ok := r.(vcError); ok {
						engineErrs = append(engineErrs, ve.msg)
						return
					}
					panic(r)
				}
			}()
			cs = eng.contractsForPkg(pkg.Types)
		}()
		if cs == nil {
			continue
		}
		assumeScan += cs.AssumeCnt
		decls := eng.FuncDecls(pkg)
		var keys []string
		for k := range cs.Funcs {
			keys = append(keys, k)
		}
		sort.Strings(keys)
		for _, k := range keys {
			c := cs.Funcs[k]
			if strings.HasPrefix(k, "funcval ") || strings.HasPrefix(k, "extern ") {
				continue
			}
			if !hasProp(c.Props, o.prop) {
				continue
			}
			if o.only != "" && !strings.Contains(k, o.only) {
				continue
			}
			if c.Trusted != "" {
				continue
			}
			d, ok := decls[k]
			if !ok {
				engineErrs = append(engineErrs, fmt.Sprintf("contract detached: %s.%s has a contract (%s:%d) but no such function exists", pkg.PkgPath, k, c.File, c.Line))
				continue
			}
			r := eng.VerifyFunc(pkg, d, c, cs, false)
			results = append(results, r)
			if r.Err != "" {
				engineErrs = append(engineErrs, r.Name+": "+r.Err)
			}
		}
		for _, ln := range cs.LemmaOrd {
			lm := cs.Lemmas[ln]
			if !hasProp(lm.Props, o.prop) || lm.Trusted != "" {
				continue
			}
			if o.only != "" && !strings.Contains(ln, o.only) {
				continue
			}
			r := eng.ProveLemma(pkg, cs, lm)
			results = append(results, r)
			if r.Err != "" {
				engineErrs = append(engineErrs, r.Name+": "+r.Err)
			}
		}
		// lock sweep: every other function of the package gets its lock-held obligations
		if contains(cfg.LockSweep, pkg.PkgPath) || contains(cfg.LockSweep, strings.TrimPrefix(pkg.PkgPath, eng.modPath+"/")) {
			var dk []string
			for k := range decls {
				dk = append(dk, k)
			}
			sort.Strings(dk)
			for _, k := range dk {
				if _, has := cs.Funcs[k]; has {
					continue
				}
				if o.only != "" && !strings.Contains(k, o.only) {
					continue
				}
				r := eng.VerifyFunc(pkg, decls[k], nil, cs, true)
				var keep []*Obligation
				for _, ob := range r.Obls {
					if ob.Kind == "lock-held" || ob.Kind == "lock-balance" || ob.Kind == "lock" {
						keep = append(keep, ob)
					}
				}
				r.Obls = keep
				if r.Err != "" {
					// a function outside the subset cannot be swept: reported, not fatal
					r.Obls = nil
					r.Dropped = append(r.Dropped, "lock sweep skipped (outside subset): "+r.Err)
				}
				results = append(results, r)
			}
		}
	}
	// collect and solve
	var obls []*Obligation
	for _, r := range results {
		for _, ob := range r.Obls {
			obls = append(obls, ob)
		}
	}
	solveAll(obls, o)
	return report(o, &cfg, eng, results, obls, engineErrs, assumeScan, t0)
}

func hasProp(ps []string, p string) bool {
	for _, x := range ps {
		if x == p {
			return true
		}
	}
	return false
}

func contains(xs []string, s string) bool {
	for _, x := range xs {
		if x == s {
			return true
		}
	}
	return false
}

func solveAll(obls []*Obligation, o *checkOpts) {
	var wg sync.WaitGroup
	sem := make(chan struct{}, o.jobs)
	for _, ob := range obls {
		if ob.Ungenerated != "" {
			ob.Res = SolverResult{Status: "unknown", Solver: "not-generated", Output: ob.Ungenerated}
			continue
		}
		if ob.Trivial {
			ob.Res = SolverResult{Status: "unsat", Solver: "trivial"}
			if ob.ByHyp {
				ob.Res.Solver = "by-hypothesis"
			}
			continue
		}
		ob := ob
		wg.Add(1)
		sem <- struct{}{}
		go func() {
			defer wg.Done()
			defer func() { <-sem }()
			q := ob.QueryText()
			p, err := writeQuery(o.out, ob.Name, q)
			if err != nil {
				ob.Res = SolverResult{Status: "error", Output: err.Error()}
				return
			}
			ob.Query = p
			files := []string{p}
			if ob.Expect == "unsat" && ob.Label != "" && len(ob.fc.cmdGuard) > 0 {
				if sq := ob.SlicedQueryText(); sq != q {
					if p2, err := writeQuery(o.out, ob.Name+"__sliced", sq); err == nil {
						files = append(files, p2)
					}
				}
			}
			to := o.timeout
			if ob.Expect == "sat" {
				to = 2 // vacuity probes: informative only (quantified contexts usually answer unknown)
				if o.tier == "thorough" {
					to = 20 // thorough: a real search for an inconsistency of the hypotheses (see DESIGN 11.3, substring axiom)
				}
			}
			if ob.Slow {
				to *= 6 // clauses marked @slow: known to need tens of seconds (64-bit adder identities)
			}
			// proofs do not depend on VERIF_SEED: the first attempt always uses solver seed 0; an inconclusive
			// answer (timeout/unknown, never sat) is retried with other seeds and a longer budget before the
			// obligation is reported as failed.
			ob.Res = SolveVariants(files, to, 0, o.tier == "thorough" && ob.Expect == "unsat")
			if ob.Expect == "sat" && o.tier == "thorough" {
				// an `unsat` answer to a probe means contradictory hypotheses; other seeds find contradictions the first misses
				for _, sd := range []int{1, 15838} {
					if ob.Res.Status == "unsat" || ob.Res.Status == "sat" {
						break
					}
					r2 := SolveVariants(files, to, sd, false)
					if r2.Status == "unsat" || r2.Status == "sat" {
						ob.Res = r2
					}
				}
			}
			if ob.Expect == "unsat" {
				for attempt := 1; attempt <= 2 && (ob.Res.Status == "timeout" || ob.Res.Status == "unknown" || ob.Res.Status == "error"); attempt++ {
					r2 := SolveVariants(files, to*2, 7919*attempt+o.seed, false)
					r2.Secs += ob.Res.Secs
					if r2.Status == "unsat" || r2.Status == "sat" {
						r2.Solver += fmt.Sprintf(" (retry %d)", attempt)
						ob.Res = r2
					} else {
						ob.Res.Secs = r2.Secs
					}
				}
			}
		}()
	}
	wg.Wait()
}
