package main

// Replay of a counterexample against the real code: the model's entry values become an in-package
// Go test (injected with `go test -overlay`, /repo is not touched) that builds the pre-state, calls the
// real function, and evaluates the contract's ensures clauses translated to Go.

import (
	"context"
	"encoding/json"
	"fmt"
	"go/types"
	"math/big"
	"os"
	"os/exec"
	"path/filepath"
	"sort"
	"strings"
	"time"
)

// makeReplay writes the replay record of a failed obligation; returns (path, reproduced on real code).
func makeReplay(o *checkOpts, eng *Engine, ob *Obligation, dir string) (string, bool) {
	os.MkdirAll(dir, 0o755)
	fn := strings.NewReplacer("/", "_", "#", "_", "*", "P", "(", "_", ")", "_", " ", "_").Replace(ob.Name)
	path := filepath.Join(dir, fn+".json")
	rec := map[string]interface{}{
		"property": o.prop, "obligation": ob.Name, "kind": ob.Kind, "goal": ob.Desc, "pos": ob.Pos,
		"verdicts": ob.Res.All, "status": ob.Res.Status, "solver": ob.Res.Solver, "solver_output": truncate(ob.Res.Output, 20000),
		"smt2": ob.Query, "test_result": "no-model",
	}
	reproduced := false
	if ob.Res.Status == "sat" && !o.noReplay {
		func() {
			defer func() {
				if r := recover(); r != nil {
					rec["test_result"] = fmt.Sprintf("replay-generation-failed: %v", r)
				}
			}()
			reproduced = tryReplay(o, eng, ob, rec)
		}()
	}
	b, _ := json.MarshalIndent(rec, "", " ")
	os.WriteFile(path, b, 0o644)
	return path, reproduced
}

func truncate(s string, n int) string {
	if len(s) > n {
		return s[:n] + "...[truncated]"
	}
	return s
}

// ---- s-expressions ----

type sx struct {
	atom string
	list []*sx
}

func parseSx(s string) []*sx {
	var toks []string
	i := 0
	for i < len(s) {
		c := s[i]
		switch {
		case c == '(' || c == ')':
			toks = append(toks, string(c))
			i++
		case c == ' ' || c == '\n' || c == '\t' || c == '\r':
			i++
		case c == '|':
			j := strings.IndexByte(s[i+1:], '|')
			if j < 0 {
				j = len(s) - i - 2
			}
			toks = append(toks, s[i:i+j+2])
			i += j + 2
		case c == '"':
			j := strings.IndexByte(s[i+1:], '"')
			if j < 0 {
				j = len(s) - i - 2
			}
			toks = append(toks, s[i:i+j+2])
			i += j + 2
		case c == ';':
			for i < len(s) && s[i] != '\n' {
				i++
			}
		default:
			j := i
			for j < len(s) && !strings.ContainsRune("() \n\t\r", rune(s[j])) {
				j++
			}
			toks = append(toks, s[i:j])
			i = j
		}
	}
	p := 0
	var parse func() *sx
	parse = func() *sx {
		if p >= len(toks) {
			return nil
		}
		t := toks[p]
		p++
		if t == "(" {
			n := &sx{}
			for p < len(toks) && toks[p] != ")" {
				n.list = append(n.list, parse())
			}
			p++
			return n
		}
		return &sx{atom: t}
	}
	var out []*sx
	for p < len(toks) {
		if toks[p] == ")" {
			p++
			continue
		}
		out = append(out, parse())
	}
	return out
}

func (x *sx) String() string {
	if x == nil {
		return ""
	}
	if x.list == nil && x.atom != "" {
		return x.atom
	}
	var ps []string
	for _, c := range x.list {
		ps = append(ps, c.String())
	}
	return "(" + strings.Join(ps, " ") + ")"
}

// sxInt interprets a model value as an integer given signedness/width (bit-vectors) or as Int.
func sxInt(x *sx, signed bool) (*big.Int, bool) {
	if x == nil {
		return nil, false
	}
	if x.list == nil {
		a := x.atom
		switch {
		case strings.HasPrefix(a, "#x"):
			v, ok := new(big.Int).SetString(a[2:], 16)
			return wrapSigned(v, len(a[2:])*4, signed), ok
		case strings.HasPrefix(a, "#b"):
			v, ok := new(big.Int).SetString(a[2:], 2)
			return wrapSigned(v, len(a[2:]), signed), ok
		default:
			v, ok := new(big.Int).SetString(a, 10)
			return v, ok
		}
	}
	if len(x.list) == 2 && x.list[0].atom == "-" {
		v, ok := sxInt(x.list[1], signed)
		if ok {
			return new(big.Int).Neg(v), true
		}
	}
	if len(x.list) == 3 && x.list[0].atom == "_" && strings.HasPrefix(x.list[1].atom, "bv") {
		v, ok := new(big.Int).SetString(x.list[1].atom[2:], 10)
		w := 64
		fmt.Sscan(x.list[2].atom, &w)
		return wrapSigned(v, w, signed), ok
	}
	return nil, false
}

func wrapSigned(v *big.Int, w int, signed bool) *big.Int {
	if v == nil || !signed {
		return v
	}
	h := new(big.Int).Lsh(big.NewInt(1), uint(w-1))
	if v.Cmp(h) >= 0 {
		return new(big.Int).Sub(v, new(big.Int).Lsh(big.NewInt(1), uint(w)))
	}
	return v
}

// getValues re-runs the failing query asking for the values of the given terms.
func getValues(ob *Obligation, terms []string, o *checkOpts) (map[string]*sx, string) {
	q := ob.QueryText()
	q = strings.Replace(q, "(get-model)", "(get-value ("+strings.Join(terms, " ")+"))", 1)
	p, err := writeQuery(o.out, ob.Name+"__values", q)
	if err != nil {
		return nil, err.Error()
	}
	st, out, _ := runOne(solvers[0], p, o.timeout, o.seed, context.Background())
	if st != "sat" {
		st, out, _ = runOne(solvers[1], p, o.timeout, o.seed, context.Background())
		if st != "sat" {
			return nil, "value query: " + st
		}
	}
	rest := out[strings.Index(out, "\n")+1:]
	xs := parseSx(rest)
	vals := map[string]*sx{}
	if len(xs) == 0 {
		return nil, "value query: no output"
	}
	for i, pair := range xs[0].list {
		if len(pair.list) == 2 && i < len(terms) {
			vals[terms[i]] = pair.list[1]
		}
	}
	return vals, ""
}

type replayVar struct {
	goLHS  string // Go lvalue / declaration target
	term   string
	ty     types.Type
	isDecl bool
}

func goLit(v *big.Int, ty types.Type, qual types.Qualifier) string {
	tn := types.TypeString(ty, qual)
	if v.Sign() < 0 {
		// MinInt64 etc: write as expression that the compiler accepts
		return fmt.Sprintf("%s(%s)", tn, v.String())
	}
	return fmt.Sprintf("%s(%s)", tn, v.String())
}

func tryReplay(o *checkOpts, eng *Engine, ob *Obligation, rec map[string]interface{}) bool {
	fc := ob.fc
	if fc.fn == nil || fc.decl == nil {
		rec["test_result"] = "no-replay: obligation is a lemma over spec functions (no executable code)"
		return false
	}
	pkgTypes := fc.pkg.Types
	qual := func(p *types.Package) string {
		if p == pkgTypes {
			return ""
		}
		return p.Name()
	}
	sig := fc.fn.Type().(*types.Signature)
	if sig.TypeParams().Len() > 0 || sig.RecvTypeParams().Len() > 0 {
		rec["test_result"] = "no-replay: generic function"
		return false
	}
	var terms []string
	type slot struct {
		kind  string // "param" | "field" | "global" | "slicelen"
		name  string
		term  string
		ty    types.Type
		owner string // for fields: variable name holding the pointer
		field string
	}
	var slots []slot
	unsupported := ""
	addScalar := func(kind, name, term string, ty types.Type, owner, field string) {
		slots = append(slots, slot{kind, name, term, ty, owner, field})
		terms = append(terms, term)
	}
	isScalar := func(t types.Type) bool { return isInteger(t) || isBool(t) }
	var ptrVars []struct {
		name string
		ty   types.Type
		term string
	}
	var sliceVars []struct {
		name string
		ty   *types.Slice
		full types.Type
		term string
	}
	handleVar := func(v *types.Var) {
		val, ok := fc.entry.vars[v]
		if !ok {
			return
		}
		t := v.Type()
		switch u := t.Underlying().(type) {
		case *types.Basic:
			if isScalar(t) {
				addScalar("param", v.Name(), val.T, t, "", "")
				return
			}
			if isString(t) {
				unsupported = "string parameter " + v.Name()
				return
			}
		case *types.Pointer:
			if s, ok := u.Elem().Underlying().(*types.Struct); ok {
				ptrVars = append(ptrVars, struct {
					name string
					ty   types.Type
					term string
				}{v.Name(), u.Elem(), val.T})
				for i := 0; i < s.NumFields(); i++ {
					f := s.Field(i)
					if isScalar(f.Type()) {
						key := fc.fieldKey(u.Elem(), f.Name())
						if _, used := fc.heapSort[key]; used {
							addScalar("field", v.Name()+"."+f.Name(), app("select", sym(key+"@0"), val.T), f.Type(), v.Name(), f.Name())
						}
					}
				}
				return
			}
		case *types.Slice:
			if isScalar(u.Elem()) {
				sliceVars = append(sliceVars, struct {
					name string
					ty   *types.Slice
					full types.Type
					term string
				}{v.Name(), u, t, val.T})
				addScalar("slicelen", v.Name(), app("s-len", val.T), tInt, "", "")
				return
			}
		}
		if unsupported == "" {
			unsupported = fmt.Sprintf("parameter %s of type %s", v.Name(), t)
		}
	}
	if r := sig.Recv(); r != nil {
		handleVar(r)
	}
	for i := 0; i < sig.Params().Len(); i++ {
		handleVar(sig.Params().At(i))
	}
	// scalar globals read by the function
	var gkeys []string
	for k := range fc.heapSort {
		if strings.HasPrefix(k, "G$"+pkgTypes.Path()+".") {
			gkeys = append(gkeys, k)
		}
	}
	sort.Strings(gkeys)
	for _, k := range gkeys {
		name := strings.TrimPrefix(k, "G$"+pkgTypes.Path()+".")
		if v, ok := pkgTypes.Scope().Lookup(name).(*types.Var); ok && isScalar(v.Type()) {
			addScalar("global", name, sym(k+"@0"), v.Type(), "", "")
		}
	}
	if unsupported != "" {
		rec["test_result"] = "no-replay: pre-state not constructible generically (" + unsupported + ")"
		return false
	}
	vals, msg := getValues(ob, terms, o)
	if vals == nil {
		rec["test_result"] = "no-model: " + msg
		return false
	}
	model := map[string]string{}
	value := func(term string, ty types.Type) (string, bool) {
		x := vals[term]
		if isBool(ty) {
			if x != nil && (x.atom == "true" || x.atom == "false") {
				return x.atom, true
			}
			return "", false
		}
		v, ok := sxInt(x, !isUnsigned(ty))
		if !ok {
			return "", false
		}
		return goLit(v, ty, qual), true
	}
	// slices: second query for the elements
	sliceLens := map[string]int{}
	var elemTerms []string
	for _, sv := range sliceVars {
		x := vals[app("s-len", sv.term)]
		n, ok := sxInt(x, true)
		if !ok || n.Sign() < 0 || n.Cmp(big.NewInt(4096)) > 0 {
			rec["test_result"] = "no-replay: slice length in model not replayable"
			return false
		}
		sliceLens[sv.name] = int(n.Int64())
		key, _ := fc.elemsKey(sv.ty.Elem())
		for i := 0; i < int(n.Int64()); i++ {
			elemTerms = append(elemTerms, app("select", app("select", sym(key+"@0"), app("s-arr", sv.term)), fc.addIdx(app("s-off", sv.term), fc.idxLit(int64(i)))))
		}
	}
	var evals map[string]*sx
	if len(elemTerms) > 0 {
		// pin the first model's scalars so both queries talk about the same counterexample
		evals, msg = getValues(ob, elemTerms, o)
		if evals == nil {
			rec["test_result"] = "no-model: " + msg
			return false
		}
	}
	var sb strings.Builder
	pkgName := pkgTypes.Name()
	sb.WriteString("package " + pkgName + "\n\nimport (\n\t\"fmt\"\n\t\"testing\"\n)\n\n")
	g := &goGen{fc: fc, qual: qual}
	var body strings.Builder
	// globals
	for _, s := range slots {
		if s.kind == "global" {
			if v, ok := value(s.term, s.ty); ok {
				body.WriteString(fmt.Sprintf("\t%s = %s\n", s.name, v))
				model[s.name] = v
			}
		}
	}
	// pointers
	for _, pv := range ptrVars {
		body.WriteString(fmt.Sprintf("\t%s := &%s{}\n", pv.name, types.TypeString(pv.ty, qual)))
	}
	for _, s := range slots {
		switch s.kind {
		case "field":
			if v, ok := value(s.term, s.ty); ok {
				body.WriteString(fmt.Sprintf("\t%s.%s = %s\n", s.owner, s.field, v))
				model[s.name] = v
			}
		case "param":
			v, ok := value(s.term, s.ty)
			if !ok {
				rec["test_result"] = "no-model: value of " + s.name + " not a literal"
				return false
			}
			body.WriteString(fmt.Sprintf("\tvar %s %s = %s\n", s.name, types.TypeString(s.ty, qual), v))
			model[s.name] = v
		}
	}
	ei := 0
	for _, sv := range sliceVars {
		n := sliceLens[sv.name]
		var es []string
		for i := 0; i < n; i++ {
			x := evals[elemTerms[ei]]
			ei++
			if isBool(sv.ty.Elem()) {
				es = append(es, x.String())
				continue
			}
			v, ok := sxInt(x, !isUnsigned(sv.ty.Elem()))
			if !ok {
				v = big.NewInt(0)
			}
			es = append(es, v.String())
		}
		body.WriteString(fmt.Sprintf("\t%s := %s{%s}\n", sv.name, types.TypeString(sv.full, qual), strings.Join(es, ", ")))
		model[sv.name] = fmt.Sprintf("len %d: [%s]", n, truncate(strings.Join(es, " "), 400))
	}
	// old() snapshots and ensures
	var checks []string
	c := fc.contract
	if c != nil {
		for i, e := range c.Ensures {
			label := e.Label
			if label == "" {
				label = fmt.Sprint(i + 1)
			}
			src, ok := g.expr(e.E)
			if !ok {
				checks = append(checks, fmt.Sprintf("\tfmt.Println(\"ZZREPLAY post#%s=skipped\")\n", label))
				continue
			}
			checks = append(checks, fmt.Sprintf("\tfmt.Printf(\"ZZREPLAY post#%s=%%v\\n\", %s)\n", label, src))
		}
	}
	for _, s := range g.olds {
		body.WriteString("\t" + s + "\n")
	}
	// call
	var resNames []string
	for i := 0; i < sig.Results().Len(); i++ {
		r := sig.Results().At(i)
		n := r.Name()
		if n == "" || n == "_" {
			n = fmt.Sprintf("result%d", i)
		}
		resNames = append(resNames, n)
	}
	var argNames []string
	for i := 0; i < sig.Params().Len(); i++ {
		n := sig.Params().At(i).Name()
		if n == "" || n == "_" {
			rec["test_result"] = "no-replay: unnamed parameter"
			return false
		}
		if sig.Variadic() && i == sig.Params().Len()-1 {
			n += "..."
		}
		argNames = append(argNames, n)
	}
	callee := fc.fn.Name()
	if r := sig.Recv(); r != nil {
		callee = r.Name() + "." + callee
		if _, isPtr := r.Type().Underlying().(*types.Pointer); !isPtr {
			// value receiver: declared as param above
		}
	}
	call := fmt.Sprintf("%s(%s)", callee, strings.Join(argNames, ", "))
	body.WriteString("\tdefer func() {\n\t\tif r := recover(); r != nil {\n\t\t\tfmt.Printf(\"ZZREPLAY panic=%v\\n\", r)\n\t\t}\n\t}()\n")
	if len(resNames) > 0 {
		body.WriteString("\t" + strings.Join(resNames, ", ") + " := " + call + "\n")
		for _, n := range resNames {
			body.WriteString("\t_ = " + n + "\n")
		}
		if len(resNames) == 1 {
			body.WriteString("\tresult := " + resNames[0] + "\n\t_ = result\n")
		}
		body.WriteString("\tfmt.Printf(\"ZZREPLAY results=%v\\n\", []interface{}{" + strings.Join(resNames, ", ") + "})\n")
	} else {
		body.WriteString("\t" + call + "\n")
	}
	for _, ch := range checks {
		body.WriteString(ch)
	}
	body.WriteString("\tfmt.Println(\"ZZREPLAY done\")\n")
	sb.WriteString(g.helpers())
	sb.WriteString("func TestZZReplay(t *testing.T) {\n")
	sb.WriteString(body.String())
	sb.WriteString("}\n")
	src := sb.String()
	rec["model"] = model
	rec["test_source"] = src
	// run with overlay
	tmp, err := os.MkdirTemp("", "govc-replay")
	if err != nil {
		rec["test_result"] = "replay-error: " + err.Error()
		return false
	}
	defer os.RemoveAll(tmp)
	testFile := filepath.Join(tmp, "zz_replay_test.go")
	os.WriteFile(testFile, []byte(src), 0o644)
	pkgDir := eng.pkgDir(pkgTypes.Path())
	ov := map[string]interface{}{"Replace": map[string]string{filepath.Join(pkgDir, "zz_replay_test.go"): testFile}}
	ovb, _ := json.Marshal(ov)
	ovFile := filepath.Join(tmp, "ov.json")
	os.WriteFile(ovFile, ovb, 0o644)
	ctx, cancel := context.WithTimeout(context.Background(), 180*time.Second)
	defer cancel()
	cmd := exec.CommandContext(ctx, "bash", "-c", fmt.Sprintf("ulimit -v 8000000; cd %q && go test -tags verif -overlay %q -vet=off -count=1 -timeout 60s -run '^TestZZReplay$' -v .", pkgDir, ovFile))
	cmd.Env = append(os.Environ(), "GOFLAGS=-mod=mod", "GOPROXY=off", "GOSUMDB=off", "GOTOOLCHAIN=local")
	outb, _ := cmd.CombinedOutput()
	out := string(outb)
	rec["test_cmd"] = "go test -tags verif -overlay ov.json -vet=off -count=1 -timeout 60s -run '^TestZZReplay$' -v . (in " + pkgDir + ")"
	rec["test_output"] = truncate(out, 8000)
	reproduced := false
	var why []string
	for _, l := range strings.Split(out, "\n") {
		l = strings.TrimSpace(l)
		if strings.HasPrefix(l, "ZZREPLAY panic=") && (c == nil || !c.MayPanic) {
			reproduced = true
			why = append(why, l)
		}
		if strings.HasPrefix(l, "ZZREPLAY post#") && strings.HasSuffix(l, "=false") {
			reproduced = true
			why = append(why, l)
		}
	}
	if !strings.Contains(out, "ZZREPLAY") {
		rec["test_result"] = "replay-error: test did not run (see test_output)"
		return false
	}
	if reproduced {
		rec["test_result"] = "reproduced: " + strings.Join(why, "; ")
	} else {
		rec["test_result"] = "not-reproduced"
	}
	return reproduced
}

// ---- spec -> Go ----

type goGen struct {
	fc      *FnCtx
	qual    types.Qualifier
	olds    []string
	pures   map[string]bool
	pureSrc []string
	needIte bool
	needMin bool
}

func (g *goGen) helpers() string {
	var sb strings.Builder
	if g.needIte {
		sb.WriteString("func zzIte[T any](c bool, a, b T) T {\n\tif c {\n\t\treturn a\n\t}\n\treturn b\n}\n\n")
	}
	if g.needMin {
		sb.WriteString("type zzOrd interface {\n\t~int | ~int8 | ~int16 | ~int32 | ~int64 | ~uint | ~uint8 | ~uint16 | ~uint32 | ~uint64\n}\n\nfunc zzMin[T zzOrd](a, b T) T {\n\tif a < b {\n\t\treturn a\n\t}\n\treturn b\n}\n\nfunc zzMax[T zzOrd](a, b T) T {\n\tif a > b {\n\t\treturn a\n\t}\n\treturn b\n}\n\n")
	}
	for _, s := range g.pureSrc {
		sb.WriteString(s)
		sb.WriteString("\n")
	}
	return sb.String()
}

func (g *goGen) expr(e *SExpr) (string, bool) {
	switch e.Kind {
	case SInt:
		return e.Name, true
	case SStr:
		return fmt.Sprintf("%q", e.Name), true
	case SIdent:
		return e.Name, true
	case SOld:
		inner, ok := g.expr(e.Args[0])
		if !ok {
			return "", false
		}
		n := fmt.Sprintf("zzOld%d", len(g.olds))
		g.olds = append(g.olds, fmt.Sprintf("%s := %s; _ = %s", n, inner, n))
		return n, true
	case SUnary:
		a, ok := g.expr(e.Args[0])
		if !ok {
			return "", false
		}
		return "(" + e.Name + a + ")", true
	case SBinary:
		a, ok1 := g.expr(e.Args[0])
		b, ok2 := g.expr(e.Args[1])
		if !ok1 || !ok2 {
			return "", false
		}
		switch e.Name {
		case "==>":
			return "(!(" + a + ") || (" + b + "))", true
		case "<==>":
			return "((" + a + ") == (" + b + "))", true
		}
		return "(" + a + " " + e.Name + " " + b + ")", true
	case SIndex:
		a, ok1 := g.expr(e.Args[0])
		b, ok2 := g.expr(e.Args[1])
		return a + "[" + b + "]", ok1 && ok2
	case SField:
		a, ok := g.expr(e.Args[0])
		return a + "." + e.Name, ok
	case SQuant:
		return g.quant(e)
	case SCall:
		if e.Fun.Kind != SIdent {
			return "", false
		}
		var as []string
		for _, a := range e.Args {
			s, ok := g.expr(a)
			if !ok {
				return "", false
			}
			as = append(as, s)
		}
		switch e.Fun.Name {
		case "ite":
			g.needIte = true
			return "zzIte(" + strings.Join(as, ", ") + ")", true
		case "min":
			g.needMin = true
			return "zzMin(" + strings.Join(as, ", ") + ")", true
		case "max":
			g.needMin = true
			return "zzMax(" + strings.Join(as, ", ") + ")", true
		case "len", "cap":
			return e.Fun.Name + "(" + as[0] + ")", true
		case "has":
			return "func() bool { _, ok := " + as[0] + "[" + as[1] + "]; return ok }()", true
		case "held", "wheld", "rheld", "isfresh", "elt", "arrid", "off", "tag", "tagof", "addrof", "noelems", "oncedone", "spawned", "chancap", "visited", "panicking":
			return "", false
		}
		if g.fc.tryResolveType(e.Fun.Name, g.fc.pkg.Types) != nil {
			return e.Fun.Name + "(" + strings.Join(as, ", ") + ")", true
		}
		if pf, _ := (&SpecEnv{fc: g.fc, home: g.fc.cs}).findPure(e.Fun.Name); pf != nil {
			if pf.Body == nil {
				return "", false
			}
			if !g.pure(pf) {
				return "", false
			}
			return "zzSpec_" + pf.Name + "(" + strings.Join(as, ", ") + ")", true
		}
		return "", false
	}
	return "", false
}

// quant: bounded quantifiers of the shape forall k T :: lo <= k && k < hi ==> body are run as loops
// when hi-lo is small at run time.
func (g *goGen) quant(e *SExpr) (string, bool) {
	if len(e.Vars) != 1 || e.Name != "forall" {
		return "", false
	}
	b := e.Args[0]
	if b.Kind != SBinary || b.Name != "==>" {
		return "", false
	}
	guard := b.Args[0]
	if guard.Kind != SBinary || guard.Name != "&&" {
		return "", false
	}
	l, r := guard.Args[0], guard.Args[1]
	v := e.Vars[0]
	if l.Kind != SBinary || l.Name != "<=" || l.Args[1].Kind != SIdent || l.Args[1].Name != v.Name {
		return "", false
	}
	if r.Kind != SBinary || r.Name != "<" || r.Args[0].Kind != SIdent || r.Args[0].Name != v.Name {
		return "", false
	}
	lo, ok1 := g.expr(l.Args[0])
	hi, ok2 := g.expr(r.Args[1])
	body, ok3 := g.expr(b.Args[1])
	if !ok1 || !ok2 || !ok3 {
		return "", false
	}
	return fmt.Sprintf("func() bool { for %s := %s(%s); %s < %s(%s); %s++ { if !(%s) { return false } }; return true }()", v.Name, v.Type, lo, v.Name, v.Type, hi, v.Name, body), true
}

func (g *goGen) pure(pf *PureFn) bool {
	if g.pures == nil {
		g.pures = map[string]bool{}
	}
	if done, ok := g.pures[pf.Name]; ok {
		return done
	}
	g.pures[pf.Name] = true
	sub := &goGen{fc: g.fc, qual: g.qual, pures: g.pures}
	body, ok := sub.expr(pf.Body)
	g.pureSrc = append(g.pureSrc, sub.pureSrc...)
	g.needIte = g.needIte || sub.needIte
	g.needMin = g.needMin || sub.needMin
	if !ok || len(sub.olds) > 0 {
		g.pures[pf.Name] = false
		return false
	}
	var ps []string
	for _, p := range pf.Params {
		ps = append(ps, p.Name+" "+p.Type)
	}
	g.pureSrc = append(g.pureSrc, fmt.Sprintf("func zzSpec_%s(%s) %s {\n\treturn %s(%s)\n}\n", pf.Name, strings.Join(ps, ", "), pf.Ret, pf.Ret, body))
	return true
}
