package main

// Verification of one function against its contract, and of lemmas over spec functions.

import (
	"sort"
	"fmt"
	"go/ast"
	"go/token"
	"go/types"
	"strconv"
	"strings"

	"golang.org/x/tools/go/packages"
)

func declKey(d *ast.FuncDecl) string {
	if d.Recv != nil && len(d.Recv.List) > 0 {
		t := d.Recv.List[0].Type
		for {
			switch x := t.(type) {
			case *ast.StarExpr:
				t = x.X
				continue
			case *ast.ParenExpr:
				t = x.X
				continue
			case *ast.IndexExpr:
				t = x.X
				continue
			case *ast.IndexListExpr:
				t = x.X
				continue
			}
			break
		}
		if id, ok := t.(*ast.Ident); ok {
			return id.Name + "." + d.Name.Name
		}
	}
	return d.Name.Name
}

func (eng *Engine) newFnCtx(pkg *packages.Package, cs *ContractSet, name string, arith string) *FnCtx {
	fc := &FnCtx{eng: eng, pkg: pkg, cs: cs, name: name, sorts: map[string]bool{}, heapSort: map[string]string{}, declared: map[string]bool{},
		loopOrd: map[ast.Stmt]int{}, dropped: map[string]bool{}, externsUsed: map[string]bool{}, lemmasUsed: map[string]bool{},
		strLits: map[string]string{}, typeTags: map[string]int{}, counters: map[string]int{}}
	if arith == "" {
		arith = cs.Arith
	}
	fc.bv = arith != "int"
	fc.mixed = arith == "mixed"
	return fc
}

func (fc *FnCtx) numberLoops(decl *ast.FuncDecl) {
	n := 0
	ast.Inspect(decl, func(nd ast.Node) bool {
		switch x := nd.(type) {
		case *ast.ForStmt:
			n++
			fc.loopOrd[x] = n
		case *ast.RangeStmt:
			n++
			fc.loopOrd[x] = n
		}
		return true
	})
}

func (fc *FnCtx) freshParam(st *State, v *types.Var, tag string) Val {
	s := fc.sortOf(v.Type())
	n := sym(v.Name() + "@" + tag)
	if fc.declared[n] {
		fc.nfresh++
		n = sym(fmt.Sprintf("%s@%s%d", v.Name(), tag, fc.nfresh))
	}
	fc.declared[n] = true
	fc.cmds = append(fc.cmds, fmt.Sprintf("(declare-fun %s () %s)", n, s))
	fc.assume(st, fc.rangeFact(n, v.Type()))
	fc.assume(st, fc.wellFormed(n, v.Type()))
	fc.assume(st, fc.oldRef(n, v.Type()))
	return Val{T: n, Ty: v.Type()}
}

// oldRef: references received from the caller were allocated before the call.
func (fc *FnCtx) oldRef(t string, ty types.Type) string {
	a0 := fc.heapGet(fc.entry, "$alloc", "Int")
	switch ty.Underlying().(type) {
	case *types.Pointer, *types.Map, *types.Chan:
		return app("<=", t, a0)
	case *types.Slice:
		return app("<=", app("s-arr", t), a0)
	}
	return "true"
}

type FuncResult struct {
	Name     string
	Obls     []*Obligation
	Err      string
	Dropped  []string
	Externs  []string
	Lemmas   []string
	Contract *Contract
}

// VerifyFunc generates all obligations of one function. Errors (outside subset, detached
// contract) are returned in FuncResult.Err.
func (eng *Engine) VerifyFunc(pkg *packages.Package, decl *ast.FuncDecl, c *Contract, cs *ContractSet, lockSweepOnly bool) (res *FuncResult) {
	name := pkg.PkgPath + "." + declKey(decl)
	arith := ""
	if c != nil {
		arith = c.Arith
	}
	fc := eng.newFnCtx(pkg, cs, strings.TrimPrefix(name, eng.modPath+"/"), arith)
	res = &FuncResult{Name: fc.name, Contract: c}
	defer func() {
		res.Obls = fc.obls
		for k := range fc.dropped {
			res.Dropped = append(res.Dropped, k)
		}
		for k := range fc.externsUsed {
			res.Externs = append(res.Externs, k)
		}
		for k := range fc.lemmasUsed {
			res.Lemmas = append(res.Lemmas, k)
		}
		if r := recover(); r != nil {
			if ve, ok := r.(vcError); ok {
				if c != nil && !lockSweepOnly && fc.genStarted {
					// the function still exists and has a contract, but its current body (or a contract clause that names
					// something the body no longer has) cannot be turned into obligations: everything the contract
					// promises is undecided, which is reported as a failed obligation (VIOLATION ... no-failing-input-found),
					// not as an engine error
					ob := &Obligation{Name: fc.name + "/generation#contract", Kind: "generation", Func: fc.name, fc: fc, Expect: "unsat", Label: "contract",
						Desc:        "the obligations of " + fc.name + " (its whole contract) can no longer be generated from the current code: " + ve.msg,
						Ungenerated: ve.msg, Pos: fc.eng.fset.Position(decl.Pos()).String()}
					res.Obls = append(res.Obls, ob)
					res.Dropped = append(res.Dropped, "NOT GENERATED: "+fc.name+": "+ve.msg)
					return
				}
				res.Err = ve.msg
				return
			}
			panic(r)
		}
	}()
	fn, _ := pkg.TypesInfo.Defs[decl.Name].(*types.Func)
	if fn == nil {
		fc.fail(decl.Pos(), "no types.Func for declaration")
	}
	fc.fn, fc.decl, fc.contract = fn, decl, c
	sig := fn.Type().(*types.Signature)
	fc.fnSig = sig
	fc.numberLoops(decl)
	fc.genStarted = true
	if c != nil {
		for ord := range c.Loops {
			found := false
			for _, o := range fc.loopOrd {
				if o == ord {
					found = true
				}
			}
			if !found {
				fc.fail(decl.Pos(), "contract detached: loop %d does not exist in %s", ord, fc.name)
			}
		}
	}
	st := &State{pc: "true", vars: map[types.Object]Val{}, heap: map[string]string{}}
	fc.entry = st
	fc.assumeGlobal(app(">=", fc.heapGet(st, "$alloc", "Int"), "0"))
	if r := sig.Recv(); r != nil && r.Name() != "" && r.Name() != "_" {
		st.vars[r] = fc.freshParam(st, r, "in")
		if _, isPtr := r.Type().Underlying().(*types.Pointer); isPtr {
			// safety invariant of inputs: methods are verified for non-nil receivers
			fc.assume(st, not(app("=", st.vars[r].T, "0")))
			fc.dropped["methods are verified for non-nil pointer receivers (a nil receiver panics at the first field access)"] = true
		}
	}
	for i := 0; i < sig.Params().Len(); i++ {
		p := sig.Params().At(i)
		if p.Name() == "" || p.Name() == "_" {
			continue
		}
		st.vars[p] = fc.freshParam(st, p, "in")
	}
	for i := 0; i < sig.Results().Len(); i++ {
		r := sig.Results().At(i)
		if r.Name() != "" && r.Name() != "_" {
			st.vars[r] = fc.zero(r.Type())
			fc.namedRes = true
		}
	}
	// the entry state is immutable from here: work on a copy
	entrySnapshot := st.clone()
	fc.entry = entrySnapshot
	scopePos := decl.Body.Lbrace + 1
	if c != nil {
		env := fc.newSpecEnv(st, entrySnapshot, scopePos)
		for _, r := range c.Requires {
			fc.assume(st, env.evalBool(r.E))
		}
		for _, u := range c.Uses {
			if usesResult(u.E) {
				continue // instantiated at every normal exit, where the results exist (finishExit)
			}
			fc.useLemma(st, u, scopePos)
		}
		if !lockSweepOnly {
			fc.probe(st, "true", "vacuity", "preconditions of "+fc.name+" are satisfiable")
		}
		// frame
		fc.checkingFrame = c.Opts["noframe"] == ""
		menv := fc.newSpecEnv(entrySnapshot, entrySnapshot, scopePos)
		for _, m := range c.Modifies {
			fc.frame = append(fc.frame, fc.regionsOf(m, menv)...)
		}
	}
	fc.autoLemmas(st)
	work := st.clone()
	out := fc.execBlock(decl.Body.List, work)
	fc.flushPanics(out)
	if len(out.breaks)+len(out.conts) > 0 {
		fc.fail(decl.Pos(), "break/continue outside loop")
	}
	var exits []*State
	if out.normal != nil {
		e := out.normal
		e.ret = nil
		for i := 0; i < sig.Results().Len(); i++ {
			e.ret = append(e.ret, e.vars[sig.Results().At(i)])
		}
		exits = append(exits, e)
	}
	exits = append(exits, out.rets...)
	for i, e := range exits {
		fc.finishExit(e, false, i, scopePos)
	}
	for i, p := range out.panics {
		fc.finishExit(p, true, i, scopePos)
	}
	return res
}

// finishExit runs the deferred calls on an exit state and checks the postconditions.
func (fc *FnCtx) finishExit(st *State, panicking bool, ord int, scopePos token.Pos) {
	if st.pc == "false" {
		return
	}
	if !panicking && fc.contract != nil {
		// reachability probe: a normal exit whose accumulated assumptions are contradictory proves everything
		// (informational: dead exits are reported in the evidence, `unsat` is listed as a warning)
		fc.probe(st, "true", "reach", fmt.Sprintf("normal exit %d of %s is reachable", ord, fc.name))
	}
	sig := fc.fnSig
	if panicking && st.panick == "" {
		st.panick = "true"
	}
	// run defers LIFO
	defers := st.defers
	st.defers = nil
	for i := len(defers) - 1; i >= 0; i-- {
		d := defers[i]
		var sub []*State
		if d.lit != nil {
			st.deferDepth = st.callDepth + 1
			savedRet := st.ret
			fc.inlineFuncLit(st, d.lit, nil, d.call.Pos())
			st.ret = savedRet
			st.deferDepth = 0
		} else {
			// a deferred method/function call: if the callee is executed in place (contract `inline`), a recover()
			// in its body is "called directly by the deferred function"
			st.deferDepth = st.callDepth + 1
			fc.evalCall(st, d.call)
			st.deferDepth = 0
		}
		// panics raised inside deferred functions: treated as new panic exits (remaining defers still run)
		sub = fc.pendingPanics
		fc.pendingPanics = nil
		for _, p := range sub {
			p.defers = defers[:i]
			fc.finishExit(p, true, ord, scopePos)
		}
		if st.pc == "false" {
			return
		}
	}
	c := fc.contract
	// results after defers
	var results []Val
	if fc.namedRes {
		for i := 0; i < sig.Results().Len(); i++ {
			results = append(results, st.vars[sig.Results().At(i)])
		}
	} else {
		results = st.ret
		if panicking {
			for i := 0; i < sig.Results().Len(); i++ {
				results = append(results, fc.zero(sig.Results().At(i).Type()))
			}
		}
	}
	still := orTrue(st.panick)
	// exceptional exit
	if still != "false" {
		ps := st.clone()
		ps.pc = fc.define("pc", "Bool", and(st.pc, still))
		if c == nil {
			// lock sweep: nothing to check
		} else if c.MayPanic {
			env := fc.newSpecEnv(ps, fc.entry, scopePos)
			fc.bindParamsOld(env)
			for i, e := range c.EnsuresPanic {
				label := e.Label
				if label == "" {
					label = fmt.Sprint(i + 1)
				}
				fc.assertNamed(ps, env.evalBool(e.E), "post-panic", label, "postcondition on panic: "+e.Text, fc.decl.Pos())
			}
		} else {
			fc.assertNamed(ps, "false", "nopanic", "", "function does not exit by panic (no `maypanic` in contract)", fc.decl.Pos())
		}
		fc.checkLocksReleased(ps, scopePos)
	}
	if still == "true" {
		return
	}
	ns := st
	if still != "false" {
		ns = st.clone()
		ns.pc = fc.define("pc", "Bool", and(st.pc, not(still)))
	}
	if c == nil {
		return
	}
	// postconditions may name the function's top-level locals (their value at the exit)
	env := fc.newSpecEnv(ns, fc.entry, fc.decl.Body.Rbrace)
	fc.bindParamsOld(env)
	for i := 0; i < sig.Results().Len() && i < len(results); i++ {
		r := sig.Results().At(i)
		if r.Name() != "" && r.Name() != "_" {
			env.bound[r.Name()] = results[i]
		}
		env.bound[fmt.Sprintf("result%d", i)] = results[i]
		if sig.Results().Len() == 1 {
			env.bound["result"] = results[i]
		}
	}
	// function-level `use` lines that name a result are lemma instances over the exit state
	for _, u := range c.Uses {
		if usesResult(u.E) {
			fc.useBound = env.bound
			fc.useLemma(ns, u, fc.decl.Body.Rbrace)
			fc.useBound = nil
		}
	}
	for i, e := range c.Ensures {
		label := e.Label
		if label == "" {
			label = fmt.Sprint(i + 1)
		}
		parts := splitConj(e.E)
		fc.curNeeds, fc.curStrict = e.Needs, e.Strict
		for j, part := range parts {
			l := label
			if len(parts) > 1 {
				l = fmt.Sprintf("%s.%d", label, j+1)
			}
			fc.assertNamed(ns, env.evalBool(part), "post", l, "postcondition: "+part.String(), fc.decl.Pos())
		}
		fc.curNeeds, fc.curStrict = nil, false
	}
	fc.checkLocksReleased(ns, scopePos)
}

// bindParamsOld: in postconditions parameter names denote the values at entry.
func (fc *FnCtx) bindParamsOld(env *SpecEnv) {
	sig := fc.fn.Type().(*types.Signature)
	if r := sig.Recv(); r != nil {
		if v, ok := fc.entry.vars[r]; ok {
			env.bound[r.Name()] = v
		}
	}
	for i := 0; i < sig.Params().Len(); i++ {
		p := sig.Params().At(i)
		if v, ok := fc.entry.vars[p]; ok {
			env.bound[p.Name()] = v
		}
	}
}

// checkLocksReleased: every mutex acquired by this call is released at exit unless the contract says otherwise
// (`opt keeps-lock`). Only mutexes whose state differs from entry are considered.
func (fc *FnCtx) checkLocksReleased(st *State, scopePos token.Pos) {
	if _, ok := fc.heapSort["$held"]; !ok {
		return
	}
	if fc.contract != nil && fc.contract.Opts["keeps-lock"] != "" {
		return
	}
	cur, old := fc.heapGet(st, "$held", heldSort), fc.heapGet(fc.entry, "$held", heldSort)
	if cur == old {
		return
	}
	var addrs []string
	for a := range fc.touchedMu {
		addrs = append(addrs, a)
	}
	sort.Strings(addrs)
	var eqs []string
	for _, a := range addrs {
		eqs = append(eqs, app("=", app("select", cur, a), app("select", old, a)))
	}
	fc.assertNamed(st, and(eqs...), "lock-balance", "", "every mutex this function locks or unlocks is in the same state at exit as at entry (no lost unlock)", fc.decl.Pos())
}

// usesResult: the expression names a result of the function (result, result0, result1, ...).
func usesResult(e *SExpr) bool {
	if e == nil {
		return false
	}
	if e.Kind == SIdent && (e.Name == "result" || (strings.HasPrefix(e.Name, "result") && len(e.Name) > 6 && e.Name[6] >= '0' && e.Name[6] <= '9')) {
		return true
	}
	if e.Fun != nil && usesResult(e.Fun) {
		return true
	}
	for _, a := range e.Args {
		if usesResult(a) {
			return true
		}
	}
	return false
}

// useLemma instantiates lemma(args): assumes requires ==> ensures for these arguments.
func (fc *FnCtx) useLemma(st *State, u *Clause, scopePos token.Pos) {
	e := u.E
	if e.Kind != SCall || e.Fun.Kind != SIdent {
		fc.fail(token.NoPos, "use: lemma application expected, got %s", u.Text)
	}
	var lm *Lemma
	var home *ContractSet
	for _, cs := range []*ContractSet{fc.cs, fc.eng.externs} {
		if l, ok := cs.Lemmas[e.Fun.Name]; ok {
			lm, home = l, cs
			break
		}
	}
	if lm == nil {
		fc.fail(token.NoPos, "use: unknown lemma %s", e.Fun.Name)
	}
	fc.lemmasUsed[lm.Name] = true
	fc.curOnly = u.Only
	defer func() { fc.curOnly = "" }()
	env := fc.newSpecEnv(st, fc.oldState(), scopePos)
	for k, v := range fc.useBound {
		env.bound[k] = v
	}
	if len(e.Args) != len(lm.Params) {
		fc.fail(token.NoPos, "use %s: wrong number of arguments", lm.Name)
	}
	homePkg := fc.eng.pkgOfContractSet(home)
	if homePkg == nil {
		homePkg = fc.pkg.Types
	}
	inst := &SpecEnv{fc: fc, cur: st, old: fc.entry, bound: map[string]Val{}, home: home, homePkg: homePkg}
	for i, p := range lm.Params {
		a := env.eval(e.Args[i])
		inst.bound[p.Name] = fc.assignConvSpec(a, fc.resolveType(p.Type, homePkg))
	}
	var pre, post []string
	for _, r := range lm.Requires {
		pre = append(pre, inst.evalBool(r.E))
	}
	for _, r := range lm.Ensures {
		post = append(post, inst.evalBool(r.E))
	}
	fc.assume(st, implies(and(pre...), and(post...)))
}

// ProveLemma: obligations for one lemma (requires ==> ensures for arbitrary parameters).
func (eng *Engine) ProveLemma(pkg *packages.Package, cs *ContractSet, lm *Lemma) (res *FuncResult) {
	fc := eng.newFnCtx(pkg, cs, "lemma/"+lm.Name, "")
	fc.reveal = lm.Reveal
	res = &FuncResult{Name: fc.name}
	defer func() {
		res.Obls = fc.obls
		if r := recover(); r != nil {
			if ve, ok := r.(vcError); ok {
				res.Err = ve.msg
				return
			}
			panic(r)
		}
	}()
	st := &State{pc: "true", vars: map[types.Object]Val{}, heap: map[string]string{}}
	fc.entry = st
	env := &SpecEnv{fc: fc, cur: st, old: st, bound: map[string]Val{}, home: cs, homePkg: pkg.Types}
	for _, p := range lm.Params {
		t := fc.resolveType(p.Type, pkg.Types)
		n := fc.fresh(p.Name, fc.sortOf(t))
		fc.assume(st, fc.rangeFact(n, t))
		env.bound[p.Name] = Val{T: n, Ty: t}
	}
	for _, r := range lm.Requires {
		fc.assume(st, env.evalBool(r.E))
	}
	fc.autoLemmasExcept(st, lm.Name)
	for _, u := range lm.Uses {
		fc.useLemmaEnv(st, u, env)
	}
	type caseSplit struct {
		cond, tag string
	}
	cases := []caseSplit{{"true", ""}}
	if lm.Cases != "" {
		// "x in lo..hi"
		f := strings.Fields(lm.Cases)
		if len(f) != 3 || f[1] != "in" {
			fc.fail(token.NoPos, "cases: expected `x in lo..hi`")
		}
		b := strings.Split(f[2], "..")
		lo, _ := strconv.Atoi(b[0])
		hi, _ := strconv.Atoi(b[1])
		v, ok := env.bound[f[0]]
		if !ok {
			fc.fail(token.NoPos, "cases: unknown parameter %s", f[0])
		}
		cases = nil
		var all []string
		for k := lo; k <= hi; k++ {
			c := app("=", v.T, fc.constVal(constantInt(int64(k)), v.Ty).T)
			cases = append(cases, caseSplit{c, fmt.Sprintf("[%s=%d]", f[0], k)})
			all = append(all, c)
		}
		// exhaustiveness of the split
		fc.noAssumeGoal = true
		fc.assertNamed(st, or(all...), "lemma-cases", "", "case split is exhaustive under the lemma's hypotheses", token.NoPos)
	}
	fc.noAssumeGoal = true
	for _, cse := range cases {
		cst := st.clone()
		cst.pc = and(st.pc, cse.cond)
		for i, e := range lm.Ensures {
			label := e.Label
			if label == "" {
				label = fmt.Sprint(i + 1)
			}
			fc.assertNamed(cst, env.evalBool(e.E), "ensures", label+cse.tag, "lemma "+lm.Name+": "+e.Text, token.NoPos)
		}
	}
	return res
}

func (fc *FnCtx) useLemmaEnv(st *State, u *Clause, env *SpecEnv) {
	e := u.E
	lm, ok := fc.cs.Lemmas[e.Fun.Name]
	if !ok {
		fc.fail(token.NoPos, "use: unknown lemma %s", e.Fun.Name)
	}
	inst := &SpecEnv{fc: fc, cur: st, old: st, bound: map[string]Val{}, home: fc.cs, homePkg: env.homePkg}
	for i, p := range lm.Params {
		a := env.eval(e.Args[i])
		inst.bound[p.Name] = fc.assignConvSpec(a, fc.resolveType(p.Type, env.homePkg))
	}
	var pre, post []string
	for _, r := range lm.Requires {
		pre = append(pre, inst.evalBool(r.E))
	}
	for _, r := range lm.Ensures {
		post = append(post, inst.evalBool(r.E))
	}
	fc.assume(st, implies(and(pre...), and(post...)))
}

// autoLemmas: lemmas marked `auto` (each proved as its own obligation) are assumed as quantified
// axioms, emitted only into queries that mention the lemma's key function.
func (fc *FnCtx) autoLemmas(st *State) { fc.autoLemmasExcept(st, "") }

// autoLemmasExcept: in the proof of lemma `except` only auto lemmas declared BEFORE it are available
// (no circular reasoning).
func (fc *FnCtx) autoLemmasExcept(st *State, except string) {
	sets := []*ContractSet{fc.cs, fc.eng.externs}
	for _, imp := range fc.pkg.Types.Imports() {
		if cs := fc.eng.contractsForPkg(imp); cs != nil && cs != fc.cs {
			sets = append(sets, cs)
		}
	}
	for _, cs := range sets {
		for _, ln := range cs.LemmaOrd {
			lm := cs.Lemmas[ln]
			if except != "" && cs == fc.cs && ln == except {
				break
			}
			if lm.Auto == "" {
				continue
			}
			if !fc.lemmaTypesResolvable(lm, cs) {
				continue // the lemma talks about a library this package does not use
			}
			fc.autoLemmaOne(st, lm, cs)
		}
	}
}

// autoLemmaOne emits one auto lemma; a lemma that cannot be expressed in this function's arithmetic
// mode (e.g. reference-indexed ghost sets in pure bit-vector mode) is skipped.
func (fc *FnCtx) autoLemmaOne(st *State, lm *Lemma, cs *ContractSet) {
	savedPre, savedDefine := len(fc.pre), fc.noDefine
	savedDeclared := make(map[string]bool, len(fc.declared))
	for k, v := range fc.declared {
		savedDeclared[k] = v
	}
	savedLits := make(map[string]string, len(fc.strLits))
	for k, v := range fc.strLits {
		savedLits[k] = v
	}
	defer func() {
		if r := recover(); r != nil {
			if _, ok := r.(vcError); ok {
				// roll back everything the failed attempt put into the preamble, including the record of what it
				// declared (otherwise a sort or function declared only by the dropped lines is never declared again)
				fc.pre = fc.pre[:savedPre]
				for i := range fc.axiomKey {
					if i >= savedPre {
						delete(fc.axiomKey, i)
					}
				}
				fc.declared = savedDeclared
				fc.strLits = savedLits
				fc.noDefine = savedDefine
				return
			}
			panic(r)
		}
	}()
	{
		{
			homePkg := fc.eng.pkgOfContractSet(cs)
			if homePkg == nil {
				homePkg = fc.pkg.Types
			}
			env := &SpecEnv{fc: fc, cur: st, old: st, bound: map[string]Val{}, home: cs, homePkg: homePkg}
			var binders []string
			for _, p := range lm.Params {
				t := fc.resolveType(p.Type, homePkg)
				fc.nfresh++
				n := sym(fmt.Sprintf("%s?%d", p.Name, fc.nfresh))
				env.bound[p.Name] = Val{T: n, Ty: t}
				binders = append(binders, fmt.Sprintf("(%s %s)", n, fc.sortOf(t)))
			}
			fc.noDefine++
			var pre, post []string
			for _, r := range lm.Requires {
				pre = append(pre, env.evalBool(r.E))
			}
			for _, r := range lm.Ensures {
				post = append(post, env.evalBool(r.E))
			}
			pat := ""
			key := ""
			if lm.Auto != "-" {
				var ts []string
				for _, p := range splitTop(lm.Auto) {
					e, err := ParseSpec(p)
					if err != nil {
						fc.fail(token.NoPos, "auto trigger: %v", err)
					}
					t := env.eval(e).T
					ts = append(ts, t)
					if key == "" && strings.HasPrefix(t, "(") {
						key = strings.Fields(t[1:])[0]
					}
				}
				pat = " :pattern (" + strings.Join(ts, " ") + ")"
			}
			fc.noDefine--
			body := implies(and(pre...), and(post...))
			ax := fmt.Sprintf("(assert (forall (%s) (! %s%s)))", strings.Join(binders, " "), body, pat)
			if len(binders) == 0 {
				ax = fmt.Sprintf("(assert %s)", body)
			}
			if key == "" {
				key = "spec$"
			}
			fc.lemmasUsed[lm.Name+" (auto)"] = true
			fc.addAxiom(key, ax)
		}
	}
}

func (fc *FnCtx) lemmaTypesResolvable(lm *Lemma, cs *ContractSet) bool {
	homePkg := fc.eng.pkgOfContractSet(cs)
	if homePkg == nil {
		homePkg = fc.pkg.Types
	}
	for _, p := range lm.Params {
		if fc.tryResolveType(p.Type, homePkg) == nil {
			return false
		}
	}
	ok := true
	var walk func(e *SExpr)
	walk = func(e *SExpr) {
		if e == nil {
			return
		}
		for _, v := range e.Vars {
			if fc.tryResolveType(v.Type, homePkg) == nil {
				ok = false
			}
		}
		for _, a := range e.Args {
			walk(a)
		}
	}
	for _, c := range append(append([]*Clause{}, lm.Requires...), lm.Ensures...) {
		walk(c.E)
	}
	return ok
}
