package main

// Per-function verification context: SMT command log, symbolic state, sort mapping, obligations.

import (
	"regexp"
	"fmt"
	"go/ast"
	"go/token"
	"go/types"
	"math/big"
	"sort"
	"strings"

	"golang.org/x/tools/go/packages"
)

type Obligation struct {
	Name    string
	Kind    string
	Desc    string
	Pos     string
	Func    string
	Goal    string
	PC      string
	ncmds   int
	npre    int
	fc      *FnCtx
	Expect  string // "unsat" normally; "sat" for cover / must-fail vacuity probes
	Props   []string
	Query   string // file path
	Res     SolverResult
	Entry   map[string]string // names of entry symbols (for model extraction)
	Trivial bool
	Label   string
	Needs   []string
	Strict  bool
	sliced  bool
	ByHyp   bool
	Slow    bool
	chainSet map[string]bool
	Ungenerated string // non-empty: the obligation could not be generated/stated on the current code (counts as failed)
}

type deferred struct {
	call *ast.CallExpr
	args []Val  // evaluated arguments (for non-closure calls)
	recv *Val   // evaluated receiver (method calls)
	lit  *ast.FuncLit
}

type State struct {
	pc      string
	vars    map[types.Object]Val
	heap    map[string]string
	defers  []*deferred
	ret     []Val
	panick  string // Bool term: currently panicking
	panicV  string // Iface term
	rsnap   map[string]*State // snapshots taken at RLock (frame of read sections)
	csSnap  *State            // state when the last critical section began (after Lock's havoc)
	callDepth int
	deferDepth int
	havocEpoch int
}

func (s *State) clone() *State {
	n := &State{pc: s.pc, vars: make(map[types.Object]Val, len(s.vars)), heap: make(map[string]string, len(s.heap)),
		panick: s.panick, panicV: s.panicV, callDepth: s.callDepth, deferDepth: s.deferDepth, rsnap: s.rsnap, csSnap: s.csSnap, havocEpoch: s.havocEpoch}
	for k, v := range s.vars {
		n.vars[k] = v
	}
	for k, v := range s.heap {
		n.heap[k] = v
	}
	n.defers = append([]*deferred(nil), s.defers...)
	n.ret = append([]Val(nil), s.ret...)
	return n
}

type FnCtx struct {
	eng      *Engine
	pkg      *packages.Package
	cs       *ContractSet
	fn       *types.Func
	decl     *ast.FuncDecl
	contract *Contract
	name     string // qualified display name
	bv       bool
	mixed    bool

	pre      []string // sort / function declarations and axioms (position independent)
	cmds     []string
	nfresh   int
	obls     []*Obligation
	sorts    map[string]bool
	heapSort map[string]string
	declared map[string]bool
	loopOrd  map[ast.Stmt]int
	entry    *State
	errs     []string
	pendingPanics []*State
	dropped  map[string]bool // what the translation abstracted (reported)
	externsUsed map[string]bool
	lemmasUsed  map[string]bool
	strLits  map[string]string
	typeTags map[string]int
	results  []*types.Var
	namedRes bool
	counters map[string]int
	inSpec   int
	noDefine int
	cmdOnly  map[int]string // cmd index -> comma separated obligation labels it is relevant for
	curOnly  string
	mtDepth  int
	genStarted bool
	useBound map[string]Val // extra spec bindings (the results) for function-level `use` lines instantiated at an exit
	cmdFact  map[int]string // cmd index -> label of the contract clause this fact comes from
	curFact  string
	curNeeds []string
	curStrict bool
	curLabelBase string
	tailDup  int
	addrFns  []string
	inlineOld *State // while inlining a callee: the state at the inlined call (meaning of old() in its loop invariants)
	touchedMu map[string]bool
	known    map[string]map[string]bool // pc -> normalised facts assumed under exactly that pc
	pcs      map[string]pcInfo
	cmdGuard map[int]string
	axiomKey map[int]string
	reveal   map[string]string
	noAssumeGoal bool
	fnSig    *types.Signature
	inlineDepth int
	checkingFrame bool
	frame    []region
}

type vcError struct{ msg string }

func (fc *FnCtx) fail(pos token.Pos, f string, a ...interface{}) {
	p := ""
	if pos.IsValid() {
		p = fc.eng.fset.Position(pos).String() + ": "
	}
	panic(vcError{p + fmt.Sprintf(f, a...)})
}

func (fc *FnCtx) I() string {
	if fc.idxBV() {
		return "(_ BitVec 64)"
	}
	return "Int"
}

// Modes: "bv": every integer is a bit-vector (int = 64 bit). "int": every integer is mathematical.
// "mixed": the platform `int` (lengths, indices, counters) is mathematical with overflow obligations,
// every sized integer type is a bit-vector with exact wrap-around semantics.
func (fc *FnCtx) idxBV() bool { return fc.bv && !fc.mixed }

// isBVType: is this integer type represented as a bit-vector?
func (fc *FnCtx) isBVType(t types.Type) bool {
	if !fc.bv {
		return false
	}
	if !fc.mixed {
		return true
	}
	b := basicOf(t)
	if b == nil {
		return true
	}
	switch b.Kind() {
	case types.Int, types.UntypedInt, types.UntypedRune, types.UntypedFloat:
		return false
	}
	return true
}

func (fc *FnCtx) idxLit(n int64) string {
	if fc.idxBV() {
		return bvLit(big.NewInt(n), 64)
	}
	return intLit(big.NewInt(n))
}

func (fc *FnCtx) addPre(s string) { fc.pre = append(fc.pre, s) }

// addAxiom: a universally valid fact about symbol `key`; emitted only into queries that mention key.
func (fc *FnCtx) addAxiom(key, s string) {
	if fc.axiomKey == nil {
		fc.axiomKey = map[int]string{}
	}
	fc.axiomKey[len(fc.pre)] = key
	fc.pre = append(fc.pre, s)
}

func (fc *FnCtx) declareOnce(name, decl string) {
	if fc.declared[name] {
		return
	}
	fc.declared[name] = true
	fc.addPre(decl)
}

func (fc *FnCtx) declareAxiomOnce(name, key, ax string) {
	if fc.declared[name] {
		return
	}
	fc.declared[name] = true
	fc.addAxiom(key, ax)
}

func (fc *FnCtx) fresh(prefix, sort string) string {
	fc.nfresh++
	n := sym(fmt.Sprintf("%s!%d", prefix, fc.nfresh))
	fc.cmds = append(fc.cmds, fmt.Sprintf("(declare-fun %s () %s)", n, sort))
	return n
}

func isAtomic(t string) bool {
	return !strings.ContainsAny(t, " ") || (strings.HasPrefix(t, "(_ bv") && strings.Count(t, "(") == 1)
}

func (fc *FnCtx) define(prefix, sort, term string) string {
	if isAtomic(term) || fc.noDefine > 0 || (len(term) < 24 && prefix != "pc") {
		return term
	}
	fc.nfresh++
	n := sym(fmt.Sprintf("%s!%d", prefix, fc.nfresh))
	fc.cmds = append(fc.cmds, fmt.Sprintf("(define-fun %s () %s %s)", n, sort, term))
	if prefix == "pc" {
		fc.registerPC(n, term)
	}
	return n
}

type pcInfo struct {
	parent string
	cond   string
}

// registerPC records the branching structure of path conditions so that facts recorded on a
// mutually exclusive path can be left out of a query (they are vacuous there).
func (fc *FnCtx) registerPC(n, term string) {
	if fc.pcs == nil {
		fc.pcs = map[string]pcInfo{}
	}
	if strings.HasPrefix(term, "(and ") {
		parts := splitSx(term[1 : len(term)-1])
		if len(parts) >= 3 {
			p := parts[1]
			if _, known := fc.pcs[p]; known || p == "true" {
				fc.pcs[n] = pcInfo{parent: p, cond: strings.Join(parts[2:], " ")}
				return
			}
		}
		// (and X) where the parent is `true` was simplified away: parent true
		fc.pcs[n] = pcInfo{parent: "true", cond: strings.Join(parts[1:], " ")}
		return
	}
	if strings.HasPrefix(term, "(or ") {
		parts := splitSx(term[1 : len(term)-1])
		if len(parts) == 3 {
			fc.pcs[n] = pcInfo{parent: fc.lca(parts[1], parts[2]), cond: "?merge" + n}
			return
		}
	}
	if strings.HasPrefix(term, "(not ") {
		fc.pcs[n] = pcInfo{parent: "true", cond: term}
		return
	}
	fc.pcs[n] = pcInfo{parent: "true", cond: term}
}

func (fc *FnCtx) chain(p string) []string {
	var out []string
	for i := 0; i < 200; i++ {
		out = append(out, p)
		info, ok := fc.pcs[p]
		if !ok {
			break
		}
		p = info.parent
	}
	return out
}

func (fc *FnCtx) lca(a, b string) string {
	in := map[string]bool{}
	for _, x := range fc.chain(a) {
		in[x] = true
	}
	for _, y := range fc.chain(b) {
		if in[y] {
			return y
		}
	}
	return "true"
}

// exclusive: do the two path conditions lie on different branches of some split?
func (fc *FnCtx) exclusive(a, b string) bool {
	if a == b {
		return false
	}
	ca, cb := fc.chain(a), fc.chain(b)
	for _, x := range ca {
		ix, ok := fc.pcs[x]
		if !ok {
			continue
		}
		for _, y := range cb {
			iy, ok := fc.pcs[y]
			if !ok || x == y || ix.parent != iy.parent {
				continue
			}
			if ix.cond == not(iy.cond) || iy.cond == not(ix.cond) {
				return true
			}
		}
	}
	return false
}

var boundRe = regexp.MustCompile(`\|?[A-Za-z_][A-Za-z0-9_]*\?[0-9]+\|?`)

// normQ renames bound variables canonically so that two formulas differing only in the fresh names
// of their quantified variables compare equal.
func normQ(f string) string {
	if !strings.Contains(f, "?") {
		return f
	}
	m := map[string]string{}
	return boundRe.ReplaceAllStringFunc(f, func(x string) string {
		if r, ok := m[x]; ok {
			return r
		}
		r := fmt.Sprintf("?b%d", len(m))
		m[x] = r
		return r
	})
}

func (fc *FnCtx) assume(st *State, f string) {
	if f == "true" {
		return
	}
	if fc.known == nil {
		fc.known = map[string]map[string]bool{}
	}
	if fc.known[st.pc] == nil {
		fc.known[st.pc] = map[string]bool{}
	}
	fc.known[st.pc][normQ(f)] = true
	if fc.curOnly != "" {
		if fc.cmdOnly == nil {
			fc.cmdOnly = map[int]string{}
		}
		fc.cmdOnly[len(fc.cmds)] = fc.curOnly
	}
	if fc.curFact != "" {
		if fc.cmdFact == nil {
			fc.cmdFact = map[int]string{}
		}
		fc.cmdFact[len(fc.cmds)] = fc.curFact
	}
	if _, ok := fc.pcs[st.pc]; ok {
		if fc.cmdGuard == nil {
			fc.cmdGuard = map[int]string{}
		}
		fc.cmdGuard[len(fc.cmds)] = st.pc
	}
	fc.cmds = append(fc.cmds, fmt.Sprintf("(assert %s)", implies(st.pc, f)))
}

func (fc *FnCtx) assumeGlobal(f string) {
	if f == "true" {
		return
	}
	fc.cmds = append(fc.cmds, fmt.Sprintf("(assert %s)", f))
}

func (fc *FnCtx) oblName(kind string) string {
	fc.counters[kind]++
	return fmt.Sprintf("%s/%s#%d", fc.name, kind, fc.counters[kind])
}

// assert records a proof obligation `pc => goal` at the current point and then assumes the goal.
func (fc *FnCtx) assert(st *State, goal, kind, desc string, pos token.Pos) *Obligation {
	return fc.assertNamed(st, goal, kind, "", desc, pos)
}

func (fc *FnCtx) assertNamed(st *State, goal, kind, label, desc string, pos token.Pos) *Obligation {
	name := ""
	if label != "" {
		name = fmt.Sprintf("%s/%s#%s", fc.name, kind, label)
		fc.counters[name]++
		if fc.counters[name] > 1 {
			name = fmt.Sprintf("%s@%d", name, fc.counters[name])
		}
	} else {
		name = fc.oblName(kind)
	}
	o := &Obligation{Name: name, Kind: kind, Desc: desc, Func: fc.name, Goal: goal, PC: st.pc, ncmds: len(fc.cmds), npre: -1, fc: fc, Expect: "unsat", Label: label, Needs: fc.curNeeds, Strict: fc.curStrict}
	for _, n := range fc.curNeeds {
		if n == "@slow" {
			o.Slow = true
		}
	}
	if pos.IsValid() {
		o.Pos = fc.eng.fset.Position(pos).String()
	}
	if goal == "true" || st.pc == "false" {
		o.Trivial = true
	} else {
		// proof by hypothesis: the goal is literally a fact already recorded on this path
		ng := normQ(goal)
		for _, g := range fc.chain(st.pc) {
			if fc.known[g][ng] {
				o.Trivial = true
				o.ByHyp = true
				break
			}
		}
	}
	fc.obls = append(fc.obls, o)
	if !fc.noAssumeGoal {
		saved := fc.curFact
		if label != "" && fc.curFact == "" && (kind == "post" || strings.HasPrefix(kind, "inv-") || strings.HasPrefix(kind, "loop-exit")) {
			fc.curFact = labelBase(label)
		}
		fc.assume(st, goal)
		fc.curFact = saved
	}
	return o
}

func labelBase(l string) string {
	if j := strings.IndexAny(l, ".@["); j >= 0 {
		return l[:j]
	}
	return l
}

// probe records a satisfiability probe (vacuity / cover): expected result is sat.
func (fc *FnCtx) probe(st *State, cond, kind, desc string) *Obligation {
	o := &Obligation{Name: fc.oblName(kind), Kind: kind, Desc: desc, Func: fc.name, Goal: not(cond), PC: st.pc, ncmds: len(fc.cmds), npre: -1, fc: fc, Expect: "sat"}
	fc.obls = append(fc.obls, o)
	return o
}

// relevant: lemma instances requested with `use [labels] ...` are only given to obligations with one of
// those labels (a labelled clause "count" also covers its split parts "count.1", "count@2", ...).
func (o *Obligation) relevant(i int) bool {
	if g, ok := o.fc.cmdGuard[i]; ok {
		if o.fc.exclusive(g, o.PC) {
			return false
		}
		if o.sliced && !o.onChain(g) {
			return false // sliced variant: only facts recorded on the obligation's own path (ancestors) are kept
		}
	}
	base := labelBase(o.Label)
	if o.Strict {
		if fact, ok := o.fc.cmdFact[i]; ok {
			if fact != base {
				found := false
				for _, n := range o.Needs {
					if n == fact {
						found = true
					}
				}
				if !found {
					return false
				}
			}
		}
	}
	only, ok := o.fc.cmdOnly[i]
	if !ok {
		return true
	}
	if base == "" {
		return true
	}
	for _, l := range strings.Split(only, ",") {
		if strings.TrimSpace(l) == base {
			return true
		}
	}
	return false
}

func (o *Obligation) onChain(g string) bool {
	if o.chainSet == nil {
		o.chainSet = map[string]bool{}
		for _, x := range o.fc.chain(o.PC) {
			o.chainSet[x] = true
		}
	}
	return o.chainSet[g]
}

// SlicedQueryText: the same obligation with a smaller hypothesis set (facts recorded on paths that were
// merged into this one are left out). Dropping hypotheses is sound; `unsat` of this variant discharges
// the obligation, any other answer means nothing.
func (o *Obligation) SlicedQueryText() string {
	o.sliced = true
	defer func() { o.sliced = false }()
	return o.QueryText()
}

func (o *Obligation) QueryText() string {
	fc := o.fc
	var sb strings.Builder
	sb.WriteString("; obligation " + o.Name + "\n; " + strings.ReplaceAll(o.Desc, "\n", " ") + "\n; at " + o.Pos + "\n")
	sb.WriteString("(set-option :produce-models true)\n")
	sb.WriteString("(set-logic ALL)\n")
	var body strings.Builder
	for i, c := range fc.cmds[:o.ncmds] {
		if !o.relevant(i) {
			continue
		}
		body.WriteString(c)
		body.WriteString("\n")
	}
	body.WriteString(o.PC + "\n" + o.Goal + "\n")
	bodyText := body.String()
	// axioms are included when their key symbol occurs (directly, or through an included axiom)
	include := map[int]bool{}
	for changed := true; changed; {
		changed = false
		for i, key := range fc.axiomKey {
			if include[i] {
				continue
			}
			if strings.Contains(bodyText, key) {
				include[i] = true
				bodyText += fc.pre[i]
				changed = true
			}
		}
	}
	for i, p := range fc.pre {
		if _, isAx := fc.axiomKey[i]; isAx && !include[i] {
			continue
		}
		sb.WriteString(p)
		sb.WriteString("\n")
	}
	for i, c := range fc.cmds[:o.ncmds] {
		if !o.relevant(i) {
			continue
		}
		sb.WriteString(c)
		sb.WriteString("\n")
	}
	sb.WriteString("(assert " + o.PC + ")\n")
	sb.WriteString("(assert " + not(o.Goal) + ")\n")
	sb.WriteString("(check-sat)\n")
	if o.Expect == "unsat" {
		sb.WriteString("(get-model)\n")
	}
	return sb.String()
}

// ---------------- sorts ----------------

func (fc *FnCtx) typeName(t types.Type) string {
	if b, ok := t.(*types.Basic); ok {
		switch b.Kind() {
		case types.Uint8:
			return "uint8" // byte
		case types.Int32:
			return "int32" // rune
		}
	}
	return types.TypeString(t, func(p *types.Package) string { return p.Path() })
}

func (fc *FnCtx) sortOf(t types.Type) string {
	switch u := t.(type) {
	case *types.Named:
		if st, ok := u.Underlying().(*types.Struct); ok {
			return fc.structSort(u, st)
		}
		if _, ok := u.Underlying().(*types.Interface); ok {
			return fc.ifaceSort()
		}
		return fc.sortOf(u.Underlying())
	case *types.Alias:
		return fc.sortOf(types.Unalias(u))
	case *types.Basic:
		switch {
		case u.Info()&types.IsBoolean != 0:
			return "Bool"
		case u.Info()&types.IsInteger != 0:
			if u.Info()&types.IsUntyped != 0 {
				return fc.I()
			}
			if fc.isBVType(u) {
				return fmt.Sprintf("(_ BitVec %d)", intWidth(u))
			}
			return "Int"
		case u.Info()&types.IsString != 0:
			return fc.strSort()
		case u.Info()&types.IsFloat != 0:
			fc.declareOnce("F64", "(declare-sort F64 0)")
			return "F64"
		case u.Kind() == types.UnsafePointer, u.Kind() == types.UntypedNil:
			return "Int"
		}
	case *types.Pointer, *types.Map, *types.Chan, *types.Signature:
		return "Int"
	case *types.Slice:
		return fc.sliceSort()
	case *types.Array:
		return fmt.Sprintf("(Array %s %s)", fc.I(), fc.sortOf(u.Elem()))
	case *types.Struct:
		return fc.structSort(nil, u)
	case *types.Interface:
		return fc.ifaceSort()
	case *types.TypeParam:
		fc.declareOnce("TParam", "(declare-sort TParam 0)")
		return "TParam"
	case *types.Tuple:
		fc.fail(token.NoPos, "tuple sort requested")
	}
	fc.fail(token.NoPos, "unsupported type %s", t)
	return ""
}

func (fc *FnCtx) sliceSort() string {
	fc.declareOnce("Slice", fmt.Sprintf("(declare-datatypes ((Slice 0)) (((mk-slice (s-arr Int) (s-off %s) (s-len %s) (s-cap %s)))))", fc.I(), fc.I(), fc.I()))
	return "Slice"
}

func (fc *FnCtx) strSort() string {
	if !fc.declared["Str"] {
		fc.declared["Str"] = true
		fc.addPre("(declare-sort Str 0)")
		fc.addPre(fmt.Sprintf("(declare-fun gs.len (Str) %s)", fc.I()))
		fc.addPre(fmt.Sprintf("(declare-fun gs.at (Str %s) (_ BitVec 8))", fc.I()))
		if fc.idxBV() {
			fc.addAxiom("gs.len", "(assert (forall ((s Str)) (! (bvsge (gs.len s) (_ bv0 64)) :pattern ((gs.len s)))))")
		} else {
			fc.addAxiom("gs.len", "(assert (forall ((s Str)) (! (and (>= (gs.len s) 0) (<= (gs.len s) 9223372036854775807)) :pattern ((gs.len s)))))")
		}
	}
	return "Str"
}

func (fc *FnCtx) ifaceSort() string {
	if !fc.declared["Iface"] {
		fc.declared["Iface"] = true
		fc.addPre("(declare-sort Iface 0)")
		fc.addPre("(declare-fun iface.tag (Iface) Int)")
		fc.addPre("(declare-fun iface.nil () Iface)")
		fc.addPre("(assert (= (iface.tag iface.nil) 0))")
	}
	return "Iface"
}

// structSort: repo structs (and anonymous structs) become datatypes; foreign structs are opaque sorts.
func (fc *FnCtx) structSort(n *types.Named, st *types.Struct) string {
	var name string
	if n != nil {
		name = "S$" + fc.typeName(n)
	} else {
		name = "S$anon" + fmt.Sprint(len(fc.declared))
		key := "anon:" + st.String()
		if s, ok := fc.strLits[key]; ok {
			return s
		}
		fc.strLits[key] = sym(name)
	}
	s := sym(name)
	if fc.declared[s] {
		return s
	}
	fc.declared[s] = true
	foreign := n != nil && n.Obj().Pkg() != nil && !strings.HasPrefix(n.Obj().Pkg().Path(), fc.eng.modPath)
	if foreign || st.NumFields() == 0 {
		fc.addPre(fmt.Sprintf("(declare-sort %s 0)", s))
		return s
	}
	var flds []string
	for i := 0; i < st.NumFields(); i++ {
		f := st.Field(i)
		flds = append(flds, fmt.Sprintf("(%s %s)", fc.fieldSel(s, f.Name()), fc.sortOf(f.Type())))
	}
	fc.addPre(fmt.Sprintf("(declare-datatypes ((%s 0)) (((%s %s))))", s, sym("mk$"+name), strings.Join(flds, " ")))
	return s
}

func (fc *FnCtx) fieldSel(structSort, f string) string {
	return sym(strings.Trim(structSort, "|") + "$" + f)
}

// ---------------- heap ----------------

func (fc *FnCtx) heapKeySort(key, sort string) {
	if old, ok := fc.heapSort[key]; ok {
		if old != sort {
			fc.fail(token.NoPos, "heap key %s used at sorts %s and %s", key, old, sort)
		}
		return
	}
	fc.heapSort[key] = sort
	fc.addPre(fmt.Sprintf("(declare-fun %s () %s)", sym(key+"@0"), sort))
}

func (fc *FnCtx) heapGet(st *State, key, sort string) string {
	fc.heapKeySort(key, sort)
	if t, ok := st.heap[key]; ok {
		if t == "" { // havocked before its sort was known
			t = fc.fresh(key, sort)
			st.heap[key] = t
		}
		return t
	}
	return sym(key + "@0")
}

func (fc *FnCtx) heapSet(st *State, key, sort, term string) {
	fc.heapKeySort(key, sort)
	st.heap[key] = fc.define(key, sort, term)
}

func (fc *FnCtx) heapHavoc(st *State, key string) {
	sort, ok := fc.heapSort[key]
	if !ok {
		st.heap[key] = "" // placeholder: a fresh symbol is created on first use
		return
	}
	st.heap[key] = fc.fresh(key, sort)
}

func (fc *FnCtx) fieldKey(owner types.Type, field string) string {
	// a generic type has one heap array per field, whatever its type arguments are written as
	// (TKeyLocker[T] in a method body, TKeyLocker[T comparable] when named in a contract)
	return "H$" + fc.ownerName(owner) + "$" + field
}

// ownerName: typeName, with the type arguments of a generic named type erased.
func (fc *FnCtx) ownerName(owner types.Type) string {
	if n, ok := owner.(*types.Named); ok && n.TypeParams() != nil && n.TypeParams().Len() > 0 && n.Obj().Pkg() != nil {
		return n.Obj().Pkg().Path() + "." + n.Obj().Name() + "[]"
	}
	return fc.typeName(owner)
}

func (fc *FnCtx) elemsKey(elem types.Type) (string, string) {
	es := fc.sortOf(elem)
	return "E$" + fc.typeName(elem), fmt.Sprintf("(Array Int (Array %s %s))", fc.I(), es)
}

func (fc *FnCtx) globalKey(v *types.Var) string {
	return "G$" + v.Pkg().Path() + "." + v.Name()
}

// ---------------- merging ----------------

func (fc *FnCtx) merge(a, b *State) *State {
	if a == nil {
		return b
	}
	if b == nil {
		return a
	}
	if a.pc == "false" {
		return b
	}
	if b.pc == "false" {
		return a
	}
	n := &State{vars: map[types.Object]Val{}, heap: map[string]string{}, rsnap: a.rsnap, csSnap: a.csSnap, callDepth: a.callDepth, deferDepth: a.deferDepth}
	n.pc = fc.define("pc", "Bool", or(a.pc, b.pc))
	for k, va := range a.vars {
		vb, ok := b.vars[k]
		if !ok {
			continue
		}
		if va.T == vb.T {
			n.vars[k] = va
			continue
		}
		s := fc.sortOf(va.Ty)
		n.vars[k] = Val{T: fc.define(k.Name(), s, ite(a.pc, va.T, vb.T)), Ty: va.Ty}
	}
	keys := map[string]bool{}
	for k := range a.heap {
		keys[k] = true
	}
	for k := range b.heap {
		keys[k] = true
	}
	var ks []string
	for k := range keys {
		ks = append(ks, k)
	}
	sort.Strings(ks)
	for _, k := range ks {
		s, known := fc.heapSort[k]
		if !known {
			n.heap[k] = ""
			continue
		}
		ta, tb := fc.heapGet(a, k, s), fc.heapGet(b, k, s)
		if ta == tb {
			n.heap[k] = ta
		} else {
			n.heap[k] = fc.define(k, s, ite(a.pc, ta, tb))
		}
	}
	// defers: must agree
	if len(a.defers) != len(b.defers) {
		fc.fail(token.NoPos, "conditional defer (outside subset)")
	}
	n.defers = a.defers
	if a.panick == b.panick {
		n.panick = a.panick
	} else {
		n.panick = fc.define("panicking", "Bool", ite(a.pc, orTrue(a.panick), orTrue(b.panick)))
	}
	if a.panicV == b.panicV {
		n.panicV = a.panicV
	} else {
		pa, pb := a.panicV, b.panicV
		if pa == "" {
			pa = "iface.nil"
		}
		if pb == "" {
			pb = "iface.nil"
		}
		fc.ifaceSort()
		n.panicV = fc.define("panicV", "Iface", ite(a.pc, pa, pb))
	}
	if len(a.ret) == len(b.ret) && len(a.ret) > 0 {
		for i := range a.ret {
			if a.ret[i].T == b.ret[i].T {
				n.ret = append(n.ret, a.ret[i])
			} else {
				n.ret = append(n.ret, Val{T: fc.define("ret", fc.sortOf(a.ret[i].Ty), ite(a.pc, a.ret[i].T, b.ret[i].T)), Ty: a.ret[i].Ty})
			}
		}
	}
	return n
}

func orTrue(s string) string {
	if s == "" {
		return "false"
	}
	return s
}

func (fc *FnCtx) mergeAll(sts []*State) *State {
	var r *State
	for _, s := range sts {
		r = fc.merge(r, s)
	}
	return r
}
