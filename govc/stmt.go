package main

// Symbolic execution of Go statements: structured control flow with state merging,
// loops cut at their invariants, defers, returns.

import (
	"golang.org/x/tools/go/types/typeutil"
	"fmt"
	"go/ast"
	"go/token"
	"go/types"
	"sort"
	"strings"
)

type jump struct {
	label string
	st    *State
}

type Outcome struct {
	normal *State
	breaks []jump
	conts  []jump
	rets   []*State
	panics []*State
}

func (o *Outcome) absorb(p *Outcome) {
	o.breaks = append(o.breaks, p.breaks...)
	o.conts = append(o.conts, p.conts...)
	o.rets = append(o.rets, p.rets...)
	o.panics = append(o.panics, p.panics...)
}

func (fc *FnCtx) flushPanics(o *Outcome) {
	o.panics = append(o.panics, fc.pendingPanics...)
	fc.pendingPanics = nil
}

func (fc *FnCtx) execBlock(stmts []ast.Stmt, st *State) *Outcome {
	out := &Outcome{normal: st}
	for i, s := range stmts {
		if out.normal == nil {
			break // unreachable code
		}
		// tail duplication: a short, branch-free remainder after an `if` is executed once per branch
		// instead of on the merged state (keeps return-site obligations per path)
		if ifs, ok := s.(*ast.IfStmt); ok && ifs.Init == nil && i < len(stmts)-1 && fc.tailDup < 2 && simpleTail(stmts[i+1:]) && containsLoop(ifs) {
			fc.tailDup++
			c := fc.eval1(out.normal, ifs.Cond)
			fc.flushPanics(out)
			a, b := out.normal.clone(), out.normal.clone()
			a.pc = fc.define("pc", "Bool", and(out.normal.pc, c.T))
			b.pc = fc.define("pc", "Bool", and(out.normal.pc, not(c.T)))
			var normals []*State
			runRest := func(n *State) {
				if n == nil {
					return
				}
				rr := fc.execBlock(stmts[i+1:], n)
				out.absorb(rr)
				if rr.normal != nil {
					normals = append(normals, rr.normal)
				}
			}
			ra := fc.execBlock(ifs.Body.List, a)
			out.absorb(ra)
			runRest(ra.normal)
			nb := b
			if ifs.Else != nil {
				rb := fc.execStmt(ifs.Else, b, "")
				out.absorb(rb)
				nb = rb.normal
			}
			runRest(nb)
			fc.tailDup--
			out.normal = fc.mergeAll(normals)
			return out
		}
		r := fc.execStmt(s, out.normal, "")
		out.normal = r.normal
		out.absorb(r)
	}
	return out
}

func simpleTail(stmts []ast.Stmt) bool {
	if len(stmts) > 3 {
		return false
	}
	ok := true
	for _, s := range stmts {
		ast.Inspect(s, func(n ast.Node) bool {
			switch n.(type) {
			case *ast.ForStmt, *ast.RangeStmt, *ast.IfStmt, *ast.SwitchStmt, *ast.TypeSwitchStmt, *ast.SelectStmt, *ast.FuncLit, *ast.DeferStmt:
				ok = false
			}
			return ok
		})
	}
	return ok
}

func containsLoop(n ast.Node) bool {
	found := false
	ast.Inspect(n, func(n ast.Node) bool {
		switch n.(type) {
		case *ast.ForStmt, *ast.RangeStmt:
			found = true
		}
		return !found
	})
	return found
}

// execBodyEnds executes a loop body; an `if` in tail position is not merged: each branch that reaches
// the end of the body is returned as its own end state (smaller, more stable inv-preserve queries).
func (fc *FnCtx) execBodyEnds(stmts []ast.Stmt, st *State, depth int) ([]*State, *Outcome) {
	out := &Outcome{}
	cur := st
	for i, s := range stmts {
		if cur == nil {
			return nil, out
		}
		if i == len(stmts)-1 && depth < 3 {
			if ifs, ok := s.(*ast.IfStmt); ok && ifs.Init == nil {
				c := fc.eval1(cur, ifs.Cond)
				fc.flushPanics(out)
				a, b := cur.clone(), cur.clone()
				a.pc = fc.define("pc", "Bool", and(cur.pc, c.T))
				b.pc = fc.define("pc", "Bool", and(cur.pc, not(c.T)))
				endsA, outA := fc.execBodyEnds(ifs.Body.List, a, depth+1)
				out.absorb(outA)
				var endsB []*State
				switch e := ifs.Else.(type) {
				case nil:
					endsB = []*State{b}
				case *ast.BlockStmt:
					var outB *Outcome
					endsB, outB = fc.execBodyEnds(e.List, b, depth+1)
					out.absorb(outB)
				default:
					var outB *Outcome
					endsB, outB = fc.execBodyEnds([]ast.Stmt{e}, b, depth+1)
					out.absorb(outB)
				}
				return append(endsA, endsB...), out
			}
		}
		r := fc.execStmt(s, cur, "")
		cur = r.normal
		out.absorb(r)
	}
	if cur == nil {
		return nil, out
	}
	return []*State{cur}, out
}

func (fc *FnCtx) execStmt(s ast.Stmt, st *State, label string) *Outcome {
	out := &Outcome{}
	defer fc.flushPanics(out)
	switch x := s.(type) {
	case *ast.BlockStmt:
		r := fc.execBlock(x.List, st)
		return r
	case *ast.EmptyStmt:
		out.normal = st
	case *ast.ExprStmt:
		fc.eval(st, x.X)
		out.normal = st
		if st.pc == "false" {
			out.normal = nil
		}
	case *ast.DeclStmt:
		gd := x.Decl.(*ast.GenDecl)
		if gd.Tok == token.VAR {
			for _, sp := range gd.Specs {
				vs := sp.(*ast.ValueSpec)
				fc.execVarSpec(st, vs)
			}
		}
		out.normal = st
	case *ast.AssignStmt:
		fc.execAssign(st, x)
		out.normal = st
	case *ast.IncDecStmt:
		cur := fc.eval1(st, x.X)
		op := token.ADD
		if x.Tok == token.DEC {
			op = token.SUB
		}
		one := fc.constVal(constantOne, cur.Ty)
		fc.assign(st, x.X, fc.binop(op, cur, one, st, x.Pos()))
		out.normal = st
	case *ast.IfStmt:
		return fc.execIf(st, x)
	case *ast.ForStmt:
		return fc.execFor(st, x, label)
	case *ast.RangeStmt:
		return fc.execRange(st, x, label)
	case *ast.SwitchStmt:
		return fc.execSwitch(st, x, label)
	case *ast.TypeSwitchStmt:
		return fc.execTypeSwitch(st, x, label)
	case *ast.LabeledStmt:
		return fc.execStmt(x.Stmt, st, x.Label.Name)
	case *ast.ReturnStmt:
		fc.execReturn(st, x)
		out.rets = append(out.rets, st)
	case *ast.BranchStmt:
		l := ""
		if x.Label != nil {
			l = x.Label.Name
		}
		switch x.Tok {
		case token.BREAK:
			out.breaks = append(out.breaks, jump{l, st})
		case token.CONTINUE:
			out.conts = append(out.conts, jump{l, st})
		default:
			fc.fail(x.Pos(), "unsupported branch %s", x.Tok)
		}
	case *ast.DeferStmt:
		fc.execDefer(st, x)
		out.normal = st
	case *ast.GoStmt:
		fc.execGo(st, x)
		out.normal = st
	case *ast.SendStmt:
		fc.execSend(st, x)
		out.normal = st
	case *ast.SelectStmt:
		return fc.execSelect(st, x, label)
	default:
		fc.fail(s.Pos(), "unsupported statement %T", s)
	}
	return out
}

func (fc *FnCtx) execVarSpec(st *State, vs *ast.ValueSpec) {
	if len(vs.Values) == 0 {
		for _, n := range vs.Names {
			o := fc.info().Defs[n]
			if o == nil {
				continue
			}
			if at, ok := o.Type().Underlying().(*types.Array); ok && fc.slicedLocals()[o] {
				// a local array whose slice is taken (`buf[:]`): lives on the heap as a fresh zeroed
				// backing array; the variable denotes the full slice over it
				n := fc.idxLit(at.Len())
				st.vars[o] = Val{T: fc.define("arr", fc.sliceSort(), fc.makeSlice(st, at.Elem(), n, n)), Ty: types.NewSlice(at.Elem())}
				continue
			}
			st.vars[o] = fc.zero(o.Type())
		}
		return
	}
	var vals []Val
	if len(vs.Values) == 1 && len(vs.Names) > 1 {
		vals = fc.evalMulti(st, vs.Values[0], len(vs.Names))
	} else {
		for _, e := range vs.Values {
			vals = append(vals, fc.eval1(st, e))
		}
	}
	for i, n := range vs.Names {
		o := fc.info().Defs[n]
		if o == nil || n.Name == "_" {
			continue
		}
		st.vars[o] = fc.bindVal(vals[i], o.Type())
	}
}

// bindVal names a value being stored in a variable.
func (fc *FnCtx) bindVal(v Val, ty types.Type) Val {
	v = fc.assignConv(v, ty)
	return Val{T: fc.define("v", fc.sortOf(ty), v.T), Ty: ty}
}

// evalMulti evaluates a tuple-producing expression (call, comma-ok forms).
func (fc *FnCtx) evalMulti(st *State, e ast.Expr, n int) []Val {
	e = ast.Unparen(e)
	switch x := e.(type) {
	case *ast.IndexExpr:
		if n == 2 {
			return fc.evalIndex(st, x, true)
		}
	case *ast.TypeAssertExpr:
		if n == 2 {
			return fc.evalTypeAssert(st, x, true)
		}
	case *ast.UnaryExpr:
		if x.Op == token.ARROW && n == 2 {
			return fc.chanRecv2(st, x)
		}
	}
	vs := fc.eval(st, e)
	if len(vs) != n {
		fc.fail(e.Pos(), "expected %d values, got %d", n, len(vs))
	}
	return vs
}

func (fc *FnCtx) execAssign(st *State, x *ast.AssignStmt) {
	if x.Tok != token.ASSIGN && x.Tok != token.DEFINE {
		// op=
		ops := map[token.Token]token.Token{token.ADD_ASSIGN: token.ADD, token.SUB_ASSIGN: token.SUB, token.MUL_ASSIGN: token.MUL,
			token.QUO_ASSIGN: token.QUO, token.REM_ASSIGN: token.REM, token.AND_ASSIGN: token.AND, token.OR_ASSIGN: token.OR,
			token.XOR_ASSIGN: token.XOR, token.SHL_ASSIGN: token.SHL, token.SHR_ASSIGN: token.SHR, token.AND_NOT_ASSIGN: token.AND_NOT}
		op, ok := ops[x.Tok]
		if !ok {
			fc.fail(x.Pos(), "unsupported assignment operator")
		}
		cur := fc.eval1(st, x.Lhs[0])
		rhs := fc.eval1(st, x.Rhs[0])
		r := fc.binop(op, cur, rhs, st, x.Pos())
		r.Ty = cur.Ty
		if r.K != nil && r.T == "" {
			r = fc.coerce(r, cur.Ty)
		}
		fc.assign(st, x.Lhs[0], r)
		return
	}
	var vals []Val
	if len(x.Rhs) == 1 && len(x.Lhs) > 1 {
		vals = fc.evalMulti(st, x.Rhs[0], len(x.Lhs))
	} else {
		for _, e := range x.Rhs {
			vals = append(vals, fc.eval1(st, e))
		}
	}
	for i, l := range x.Lhs {
		if id, ok := l.(*ast.Ident); ok {
			if id.Name == "_" {
				continue
			}
			if x.Tok == token.DEFINE {
				if o := fc.info().Defs[id]; o != nil {
					st.vars[o] = fc.bindVal(vals[i], o.Type())
					continue
				}
			}
		}
		fc.assign(st, l, vals[i])
	}
}

// assign stores v into the lvalue l.
func (fc *FnCtx) assign(st *State, l ast.Expr, v Val) {
	switch x := l.(type) {
	case *ast.ParenExpr:
		fc.assign(st, x.X, v)
	case *ast.Ident:
		if x.Name == "_" {
			return
		}
		o, ok := fc.info().ObjectOf(x).(*types.Var)
		if !ok {
			fc.fail(x.Pos(), "assignment to non-variable")
		}
		if _, isLocal := st.vars[o]; !isLocal && o.Pkg() != nil && o.Parent() == o.Pkg().Scope() {
			key := fc.globalKey(o)
			fc.heapSet(st, key, fc.sortOf(o.Type()), fc.assignConv(v, o.Type()).T)
			return
		}
		st.vars[o] = fc.bindVal(v, o.Type())
	case *ast.SelectorExpr:
		sel, ok := fc.info().Selections[x]
		if !ok || sel.Kind() != types.FieldVal {
			// qualified global
			if o, ok := fc.info().ObjectOf(x.Sel).(*types.Var); ok {
				fc.heapSet(st, fc.globalKey(o), fc.sortOf(o.Type()), fc.assignConv(v, o.Type()).T)
				return
			}
			fc.fail(x.Pos(), "unsupported assignment target")
		}
		base := fc.eval1(st, x.X)
		path := sel.Index()
		if len(path) > 1 {
			// implicit embedded path: walk all but last
			if _, _, isPtr := structOf(base.Ty); !isPtr {
				fc.fail(x.Pos(), "assignment through embedded value struct (outside subset)")
			}
			base = fc.selectPath(st, base, path[:len(path)-1], x.Pos())
		}
		s, owner, isPtr := structOf(base.Ty)
		f := s.Field(path[len(path)-1])
		v = fc.assignConv(v, f.Type())
		if isPtr {
			fc.assertNonNil(st, base, x.Pos())
			fc.checkGuard(st, owner, f.Name(), base.T, true, x.Pos())
			fc.checkFrameField(st, owner, f.Name(), base.T, x.Pos())
			key := fc.fieldKey(owner, f.Name())
			sort := fmt.Sprintf("(Array Int %s)", fc.sortOf(f.Type()))
			fc.heapSet(st, key, sort, app("store", fc.heapGet(st, key, sort), base.T, v.T))
			return
		}
		// struct value: rebuild and assign to the base lvalue
		var fs []string
		ss := fc.sortOf(owner)
		for i := 0; i < s.NumFields(); i++ {
			if i == path[len(path)-1] {
				fs = append(fs, v.T)
			} else {
				fs = append(fs, app(fc.fieldSel(ss, s.Field(i).Name()), base.T))
			}
		}
		fc.assign(st, x.X, Val{T: app(fc.structCtor(owner), fs...), Ty: base.Ty})
	case *ast.IndexExpr:
		base := fc.eval1(st, x.X)
		bt := base.Ty.Underlying()
		if p, ok := bt.(*types.Pointer); ok {
			_ = p
			fc.fail(x.Pos(), "store through pointer to array (outside subset)")
		}
		switch t := bt.(type) {
		case *types.Slice:
			iv := fc.eval1(st, x.Index)
			i := fc.toIdx(iv)
			fc.assert(st, fc.inBounds(i, app("s-len", base.T), iv), "bounds", "slice index in range (store)", x.Pos())
			v = fc.assignConv(v, t.Elem())
			fc.checkFrameElem(st, base, i, x.Pos())
			fc.storeElem(st, base, i, v, t.Elem())
		case *types.Array:
			iv := fc.eval1(st, x.Index)
			i := fc.toIdx(iv)
			fc.assert(st, fc.inBounds(i, fc.idxLit(t.Len()), iv), "bounds", "array index in range (store)", x.Pos())
			v = fc.assignConv(v, t.Elem())
			fc.assign(st, x.X, Val{T: app("store", base.T, i, v.T), Ty: base.Ty})
		case *types.Map:
			k := fc.evalTo(st, x.Index, t.Key())
			v = fc.assignConv(v, t.Elem())
			fc.assert(st, not(app("=", base.T, "0")), "nil", "assignment to entry in nil map", x.Pos())
			fc.mapStoreCounted(st, base, k, v, t)
		default:
			fc.fail(x.Pos(), "unsupported indexed assignment on %s", base.Ty)
		}
	case *ast.StarExpr:
		p := fc.eval1(st, x.X)
		pt := p.Ty.Underlying().(*types.Pointer)
		fc.assertNonNil(st, p, x.Pos())
		if s, ok := pt.Elem().Underlying().(*types.Struct); ok && fc.isDatatype(pt.Elem()) {
			ss := fc.sortOf(pt.Elem())
			for i := 0; i < s.NumFields(); i++ {
				key := fc.fieldKey(pt.Elem(), s.Field(i).Name())
				sort := fmt.Sprintf("(Array Int %s)", fc.sortOf(s.Field(i).Type()))
				fc.heapSet(st, key, sort, app("store", fc.heapGet(st, key, sort), p.T, app(fc.fieldSel(ss, s.Field(i).Name()), v.T)))
			}
			return
		}
		v = fc.assignConv(v, pt.Elem())
		key := "P$" + fc.typeName(pt.Elem())
		sort := fmt.Sprintf("(Array Int %s)", fc.sortOf(pt.Elem()))
		fc.checkFrameKey(st, key, p.T, "write through pointer", x.Pos())
		fc.heapSet(st, key, sort, app("store", fc.heapGet(st, key, sort), p.T, v.T))
	default:
		fc.fail(l.Pos(), "unsupported assignment target %T", l)
	}
}

func (fc *FnCtx) storeElem(st *State, s Val, i string, v Val, elem types.Type) {
	key, sort := fc.elemsKey(elem)
	E := fc.heapGet(st, key, sort)
	a := app("s-arr", s.T)
	fc.heapSet(st, key, sort, app("store", E, a, app("store", app("select", E, a), fc.addIdx(app("s-off", s.T), i), v.T)))
}

// mapStoreCounted updates the map and its ghost cardinality.
func (fc *FnCtx) mapStoreCounted(st *State, m Val, k Val, v Val, t *types.Map) {
	_, has := fc.mapGet(st, m, k, t)
	ck := "MC$" + fc.typeName(t.Key()) + "$" + fc.typeName(t.Elem())
	C := fc.heapGet(st, ck, "(Array Int Int)")
	fc.heapSet(st, ck, "(Array Int Int)", app("store", C, m.T, ite(has, app("select", C, m.T), app("+", app("select", C, m.T), "1"))))
	fc.mapSet(st, m, k, v, t)
}

func (fc *FnCtx) mapDeleteCounted(st *State, m Val, k Val, t *types.Map) {
	_, has := fc.mapGet(st, m, k, t)
	ck := "MC$" + fc.typeName(t.Key()) + "$" + fc.typeName(t.Elem())
	C := fc.heapGet(st, ck, "(Array Int Int)")
	fc.heapSet(st, ck, "(Array Int Int)", app("store", C, m.T, ite(has, app("-", app("select", C, m.T), "1"), app("select", C, m.T))))
	fc.mapDelete(st, m, k, t)
}

func (fc *FnCtx) execIf(st *State, x *ast.IfStmt) *Outcome {
	out := &Outcome{}
	if x.Init != nil {
		r := fc.execStmt(x.Init, st, "")
		out.absorb(r)
		st = r.normal
		if st == nil {
			return out
		}
	}
	c := fc.eval1(st, x.Cond)
	fc.flushPanics(out)
	a, b := st.clone(), st.clone()
	a.pc = fc.define("pc", "Bool", and(st.pc, c.T))
	b.pc = fc.define("pc", "Bool", and(st.pc, not(c.T)))
	ra := fc.execBlock(x.Body.List, a)
	out.absorb(ra)
	var nb *State
	if x.Else != nil {
		rb := fc.execStmt(x.Else, b, "")
		out.absorb(rb)
		nb = rb.normal
	} else {
		nb = b
	}
	out.normal = fc.merge(ra.normal, nb)
	return out
}

func (fc *FnCtx) execSwitch(st *State, x *ast.SwitchStmt, label string) *Outcome {
	out := &Outcome{}
	if x.Init != nil {
		r := fc.execStmt(x.Init, st, "")
		out.absorb(r)
		st = r.normal
		if st == nil {
			return out
		}
	}
	var tag *Val
	if x.Tag != nil {
		v := fc.eval1(st, x.Tag)
		if v.K != nil && v.T == "" {
			v = fc.coerce(v, fc.typeOf(x.Tag))
		}
		tag = &v
	}
	rest := st
	var normals []*State
	var defaultClause *ast.CaseClause
	for _, cc := range x.Body.List {
		cl := cc.(*ast.CaseClause)
		if cl.List == nil {
			defaultClause = cl
			continue
		}
		var conds []string
		for _, e := range cl.List {
			v := fc.eval1(rest, e)
			if tag != nil {
				conds = append(conds, fc.binop(token.EQL, *tag, v, nil, e.Pos()).T)
			} else {
				conds = append(conds, v.T)
			}
		}
		c := or(conds...)
		a := rest.clone()
		a.pc = fc.define("pc", "Bool", and(rest.pc, c))
		nrest := rest.clone()
		nrest.pc = fc.define("pc", "Bool", and(rest.pc, not(c)))
		rest = nrest
		fc.checkNoFallthrough(cl)
		r := fc.execBlock(cl.Body, a)
		fc.collectSwitch(out, r, label, &normals)
	}
	if defaultClause != nil {
		fc.checkNoFallthrough(defaultClause)
		r := fc.execBlock(defaultClause.Body, rest)
		fc.collectSwitch(out, r, label, &normals)
	} else {
		normals = append(normals, rest)
	}
	out.normal = fc.mergeAll(normals)
	return out
}

func (fc *FnCtx) checkNoFallthrough(cl *ast.CaseClause) {
	if n := len(cl.Body); n > 0 {
		if b, ok := cl.Body[n-1].(*ast.BranchStmt); ok && b.Tok == token.FALLTHROUGH {
			fc.fail(b.Pos(), "fallthrough (outside subset)")
		}
	}
}

func (fc *FnCtx) collectSwitch(out *Outcome, r *Outcome, label string, normals *[]*State) {
	if r.normal != nil {
		*normals = append(*normals, r.normal)
	}
	for _, j := range r.breaks {
		if j.label == "" || j.label == label {
			*normals = append(*normals, j.st)
		} else {
			out.breaks = append(out.breaks, j)
		}
	}
	out.conts = append(out.conts, r.conts...)
	out.rets = append(out.rets, r.rets...)
	out.panics = append(out.panics, r.panics...)
}

func (fc *FnCtx) execTypeSwitch(st *State, x *ast.TypeSwitchStmt, label string) *Outcome {
	out := &Outcome{}
	if x.Init != nil {
		r := fc.execStmt(x.Init, st, "")
		out.absorb(r)
		st = r.normal
		if st == nil {
			return out
		}
	}
	var subject ast.Expr
	switch a := x.Assign.(type) {
	case *ast.AssignStmt:
		subject = a.Rhs[0].(*ast.TypeAssertExpr).X
	case *ast.ExprStmt:
		subject = a.X.(*ast.TypeAssertExpr).X
	}
	v := fc.eval1(st, subject)
	fc.ifaceSort()
	rest := st
	var normals []*State
	var defaultClause *ast.CaseClause
	for _, cc := range x.Body.List {
		cl := cc.(*ast.CaseClause)
		if cl.List == nil {
			defaultClause = cl
			continue
		}
		var conds []string
		var single types.Type
		for _, e := range cl.List {
			tv := fc.info().Types[e]
			if tv.IsNil() {
				conds = append(conds, app("=", v.T, "iface.nil"))
				continue
			}
			t := tv.Type
			if _, isIface := t.Underlying().(*types.Interface); isIface {
				// implements-interface test: uninterpreted predicate of the dynamic type tag
				p := sym("implements$" + fc.typeName(t))
				fc.declareOnce(p, fmt.Sprintf("(declare-fun %s (Int) Bool)", p))
				conds = append(conds, app(p, app("iface.tag", v.T)))
			} else {
				conds = append(conds, app("=", app("iface.tag", v.T), fmt.Sprint(fc.typeTag(t))))
			}
			single = t
		}
		c := or(conds...)
		a := rest.clone()
		a.pc = fc.define("pc", "Bool", and(rest.pc, c))
		nrest := rest.clone()
		nrest.pc = fc.define("pc", "Bool", and(rest.pc, not(c)))
		rest = nrest
		if o := fc.info().Implicits[cl]; o != nil {
			if len(cl.List) == 1 && single != nil {
				if _, isIface := single.Underlying().(*types.Interface); isIface {
					a.vars[o] = Val{T: v.T, Ty: single}
				} else {
					a.vars[o] = fc.unbox(v, single)
				}
			} else {
				a.vars[o] = Val{T: v.T, Ty: o.Type()}
			}
		}
		r := fc.execBlock(cl.Body, a)
		fc.collectSwitch(out, r, label, &normals)
	}
	if defaultClause != nil {
		if o := fc.info().Implicits[defaultClause]; o != nil {
			rest.vars[o] = Val{T: v.T, Ty: o.Type()}
		}
		r := fc.execBlock(defaultClause.Body, rest)
		fc.collectSwitch(out, r, label, &normals)
	} else {
		normals = append(normals, rest)
	}
	out.normal = fc.mergeAll(normals)
	return out
}

// ---------------- loops ----------------

type modTarget struct {
	key  string
	base string // "" => whole array; else only this reference's cell / inner array
}

// assignedVars collects local variables assigned within a syntax subtree.
func (fc *FnCtx) assignedVars(nodes ...ast.Node) []*types.Var {
	seen := map[*types.Var]bool{}
	var out []*types.Var
	add := func(e ast.Expr) {
		for {
			switch x := e.(type) {
			case *ast.ParenExpr:
				e = x.X
				continue
			case *ast.IndexExpr: // a[i] = v on array-valued local modifies a
				if _, ok := fc.typeOf(x.X).Underlying().(*types.Array); ok {
					e = x.X
					continue
				}
			case *ast.SelectorExpr: // s.f = v on struct-valued local modifies s
				if sel, ok := fc.info().Selections[x]; ok && sel.Kind() == types.FieldVal {
					if _, _, isPtr := structOf(fc.typeOf(x.X)); !isPtr {
						e = x.X
						continue
					}
				}
			}
			break
		}
		if id, ok := e.(*ast.Ident); ok {
			if v, ok := fc.info().ObjectOf(id).(*types.Var); ok && !seen[v] {
				seen[v] = true
				out = append(out, v)
			}
		}
	}
	for _, n := range nodes {
		if n == nil {
			continue
		}
		ast.Inspect(n, func(n ast.Node) bool {
			switch x := n.(type) {
			case *ast.AssignStmt:
				for _, l := range x.Lhs {
					add(l)
				}
			case *ast.IncDecStmt:
				add(x.X)
			case *ast.RangeStmt:
				if x.Key != nil {
					add(x.Key)
				}
				if x.Value != nil {
					add(x.Value)
				}
			case *ast.DeclStmt:
				// declared inside: irrelevant outside the loop
			}
			return true
		})
	}
	return out
}

func (fc *FnCtx) loopSpec(s ast.Stmt) *LoopSpec {
	ord := fc.loopOrd[s]
	if fc.contract != nil {
		if ls, ok := fc.contract.Loops[ord]; ok {
			return ls
		}
	}
	return &LoopSpec{Ordinal: ord}
}

// havocLoop havocs everything the loop may change; returns the loop-head state.
func (fc *FnCtx) havocLoop(st *State, ls *LoopSpec, nodes ...ast.Node) *State {
	h := st.clone()
	for _, v := range fc.assignedVars(nodes...) {
		old, ok := h.vars[v]
		if !ok {
			if v.Pkg() != nil && v.Parent() == v.Pkg().Scope() {
				fc.heapHavoc(h, fc.globalKey(v))
			}
			continue
		}
		nv := fc.fresh(v.Name(), fc.sortOf(old.Ty))
		h.vars[v] = Val{T: nv, Ty: old.Ty}
		fc.assume(h, fc.rangeFact(nv, old.Ty))
		fc.assume(h, fc.wellFormed(nv, old.Ty)) // a slice-typed local still holds a real slice header
	}
	for _, mt := range fc.modTargets(st, nodes...) {
		fc.havocTarget(h, mt)
	}
	for _, m := range ls.Modifies {
		fc.havocModifies(h, st, m, nil)
	}
	// a Cond.Wait directly in the loop: while this goroutine waited, other goroutines may have changed everything the
	// monitor protects - at an arbitrary iteration the loop head sees such a state (no invariant is assumed for it here:
	// the loop's own invariant has to say what holds)
	if waitsDirectly(fc, nodes...) {
		if mi := fc.condOwnerQuiet(h); mi != nil {
			fc.acquireHavoc(h, mi, false)
		} else {
			fc.havocAllHeap(h)
		}
	}
	// cs(): at an arbitrary iteration the last critical section may have begun inside an earlier iteration (Cond.Wait
	// re-acquires the lock, Lock inside the body). The snapshot cs() reads must then be arbitrary too - related to the
	// loop-head state only by what the invariant says (`x == cs(x)`) -, not the snapshot taken before the loop.
	if st.csSnap != nil && (resetsCS(nodes...) || fc.calleeResetsCS(nodes...)) {
		snap := st.csSnap.clone()
		for k, v := range st.heap { // everything the loop or the code since the snapshot may have changed
			if snap.heap[k] != v || h.heap[k] != v {
				fc.heapHavoc(snap, k)
			}
		}
		for k := range h.heap {
			if _, ok := st.heap[k]; !ok {
				fc.heapHavoc(snap, k)
			}
		}
		for v, hv := range h.vars {
			if sv, ok := snap.vars[v]; !ok || sv.T != hv.T || st.vars[v].T != hv.T {
				nv := fc.fresh(v.Name()+"$cs", fc.sortOf(hv.Ty))
				snap.vars[v] = Val{T: nv, Ty: hv.Ty}
			}
		}
		h.csSnap = snap
	}
	return h
}

// waitsDirectly: the nodes contain a call of (*sync.Cond).Wait.
func waitsDirectly(fc *FnCtx, nodes ...ast.Node) bool {
	found := false
	for _, n := range nodes {
		if n == nil {
			continue
		}
		ast.Inspect(n, func(x ast.Node) bool {
			if c, ok := x.(*ast.CallExpr); ok {
				if callee := typeutil.StaticCallee(fc.info(), c); callee != nil && callee.FullName() == "(*sync.Cond).Wait" {
					found = true
				}
			}
			return !found
		})
	}
	return found
}

// calleeResetsCS: the nodes contain a call of a function whose contract speaks about cs() - applying such a contract
// installs the callee's critical-section snapshot as the caller's (calls.go), so inside a loop the snapshot at the head
// is not the one from before the loop either.
func (fc *FnCtx) calleeResetsCS(nodes ...ast.Node) bool {
	found := false
	for _, n := range nodes {
		if n == nil {
			continue
		}
		ast.Inspect(n, func(x ast.Node) bool {
			c, ok := x.(*ast.CallExpr)
			if !ok || found {
				return !found
			}
			callee := typeutil.StaticCallee(fc.info(), c)
			if callee == nil {
				return true
			}
			ct, home, _, _ := fc.eng.lookupContract(callee)
			if ct == nil || home == nil {
				return true
			}
			for _, e := range ct.Ensures {
				if mentionsCall(e.E, "cs") {
					found = true
				}
				for name, pf := range home.Pures {
					if strings.Contains(pf.Text, "cs(") && mentionsCall(e.E, name) {
						found = true
					}
				}
			}
			return !found
		})
	}
	return found
}

// resetsCS: the nodes contain a call that starts a new critical section (Lock/RLock, Cond.Wait).
func resetsCS(nodes ...ast.Node) bool {
	found := false
	for _, n := range nodes {
		if n == nil {
			continue
		}
		ast.Inspect(n, func(x ast.Node) bool {
			if c, ok := x.(*ast.CallExpr); ok {
				if sel, ok := c.Fun.(*ast.SelectorExpr); ok {
					switch sel.Sel.Name {
					case "Wait", "Lock", "RLock":
						found = true
					}
				}
			}
			return !found
		})
	}
	return found
}

func (fc *FnCtx) havocTarget(h *State, mt modTarget) {
	if mt.key == "*" {
		fc.havocAllHeap(h)
		return
	}
	if strings.HasPrefix(mt.key, "region:") {
		// monitor-declared extra regions: whole-key havoc by name where the designator is region(...)
		txt := strings.TrimPrefix(mt.key, "region:")
		if strings.HasPrefix(txt, "region(") {
			for _, k := range splitTop(strings.TrimSuffix(strings.TrimPrefix(txt, "region("), ")")) {
				fc.heapHavoc(h, k)
			}
			return
		}
		fc.havocAllHeap(h)
		return
	}
	sort, known := fc.heapSort[mt.key]
	if mt.base == "" || !known {
		fc.heapHavoc(h, mt.key)
		return
	}
	cur := fc.heapGet(h, mt.key, sort)
	// sort is (Array Int X): havoc only cell `base`
	inner := arrayElemSort(sort)
	nv := fc.fresh(mt.key+"$cell", inner)
	h.heap[mt.key] = fc.define(mt.key, sort, app("store", cur, mt.base, nv))
}

func arrayElemSort(s string) string {
	// s = "(Array Int X)"
	const p = "(Array Int "
	if len(s) > len(p) && s[:len(p)] == p {
		return s[len(p) : len(s)-1]
	}
	return s
}

func (fc *FnCtx) checkInvariants(st *State, ls *LoopSpec, kind string, pos token.Pos, scopePos token.Pos) {
	// lemma instances requested for the loop are available at entry, at the head and at the end of the body
	for _, u := range ls.Uses {
		fc.useLemma(st, u, scopePos)
	}
	for i, inv := range ls.Invariants {
		label := inv.Label
		if label == "" {
			label = fmt.Sprintf("%d", i+1)
		}
		parts := splitConj(inv.E)
		fc.curNeeds, fc.curStrict = inv.Needs, inv.Strict
		for j, part := range parts {
			env := fc.newSpecEnv(st, fc.oldState(), scopePos)
			v := env.evalBool(part)
			l := label
			if len(parts) > 1 {
				l = fmt.Sprintf("%s.%d", label, j+1)
			}
			fc.assertNamed(st, v, fmt.Sprintf("%s/loop%d", kind, ls.Ordinal), l, "loop invariant: "+part.String(), pos)
		}
		fc.curNeeds, fc.curStrict = nil, false
	}
}

func (fc *FnCtx) assumeInvariants(st *State, ls *LoopSpec, scopePos token.Pos) {
	for _, inv := range ls.Invariants {
		env := fc.newSpecEnv(st, fc.oldState(), scopePos)
		fc.curFact = inv.Label
		fc.assume(st, env.evalBool(inv.E))
		fc.curFact = ""
	}
	for _, u := range ls.Uses {
		fc.useLemma(st, u, scopePos)
	}
}

func (fc *FnCtx) execFor(st *State, x *ast.ForStmt, label string) *Outcome {
	out := &Outcome{}
	if x.Init != nil {
		r := fc.execStmt(x.Init, st, "")
		out.absorb(r)
		st = r.normal
		if st == nil {
			return out
		}
	}
	ls := fc.loopSpec(x)
	scopePos := x.Body.Lbrace + 1
	fc.checkInvariants(st, ls, "inv-entry", x.Pos(), scopePos)
	var nodes []ast.Node
	nodes = append(nodes, x.Body)
	if x.Post != nil {
		nodes = append(nodes, x.Post)
	}
	if x.Cond != nil {
		nodes = append(nodes, x.Cond)
	}
	head := fc.havocLoop(st, ls, nodes...)
	fc.assumeInvariants(head, ls, scopePos)
	exit := head.clone()
	body := head.clone()
	if x.Cond != nil {
		c := fc.eval1(head, x.Cond)
		fc.flushPanics(out)
		// evaluating the condition may have side effects (calls): propagate
		exit = head.clone()
		body = head.clone()
		exit.pc = fc.define("pc", "Bool", and(head.pc, not(c.T)))
		body.pc = fc.define("pc", "Bool", and(head.pc, c.T))
	} else {
		exit = nil
	}
	bodyEnds, rb := fc.execBodyEnds(x.Body.List, body, 0)
	exits := []*State{}
	if exit != nil {
		exits = append(exits, exit)
	}
	ends := []*State{}
	ends = append(ends, bodyEnds...)
	for _, j := range rb.conts {
		if j.label == "" || j.label == label {
			ends = append(ends, j.st)
		} else {
			out.conts = append(out.conts, j)
		}
	}
	for _, j := range rb.breaks {
		if j.label == "" || j.label == label {
			exits = append(exits, j.st)
		} else {
			out.breaks = append(out.breaks, j)
		}
	}
	out.rets = append(out.rets, rb.rets...)
	out.panics = append(out.panics, rb.panics...)
	// each way of reaching the end of the body is checked on its own (smaller queries than one merged state)
	if len(ends) > 4 {
		ends = []*State{fc.mergeAll(ends)}
	}
	for _, end := range ends {
		if end == nil || end.pc == "false" {
			continue
		}
		if x.Post != nil {
			r := fc.execStmt(x.Post, end, "")
			out.absorb(r)
			end = r.normal
		}
		if end != nil {
			fc.checkInvariants(end, ls, "inv-preserve", x.Pos(), scopePos)
		}
	}
	fc.checkExits(exits, ls, x.Pos(), scopePos)
	out.normal = fc.mergeAll(exits)
	// every exit state satisfies the exit clauses (proved above), and the merged state is one of them
	if out.normal != nil && len(exits) > 1 {
		for _, c := range ls.Exits {
			fc.curFact = c.Label
			for _, part := range splitConj(c.E) {
				env := fc.newSpecEnv(out.normal, fc.oldState(), scopePos)
				fc.assume(out.normal, env.evalBool(part))
			}
			fc.curFact = ""
		}
	}
	return out
}

// checkExits asserts the loop's `exit` clauses on each exit state separately (then they are known in the merge).
func (fc *FnCtx) checkExits(exits []*State, ls *LoopSpec, pos token.Pos, scopePos token.Pos) {
	for _, ex := range exits {
		if ex == nil || ex.pc == "false" {
			continue
		}
		for _, u := range ls.Uses {
			fc.useLemma(ex, u, scopePos)
		}
		for i, c := range ls.Exits {
			label := c.Label
			if label == "" {
				label = fmt.Sprint(i + 1)
			}
			parts := splitConj(c.E)
			fc.curNeeds, fc.curStrict = c.Needs, c.Strict
			for j, part := range parts {
				env := fc.newSpecEnv(ex, fc.oldState(), scopePos)
				l := label
				if len(parts) > 1 {
					l = fmt.Sprintf("%s.%d", label, j+1)
				}
				fc.assertNamed(ex, env.evalBool(part), fmt.Sprintf("loop-exit/loop%d", ls.Ordinal), l, "loop exit fact: "+part.String(), pos)
			}
			fc.curNeeds, fc.curStrict = nil, false
		}
	}
}

func (fc *FnCtx) execRange(st *State, x *ast.RangeStmt, label string) *Outcome {
	out := &Outcome{}
	coll := fc.eval1(st, x.X)
	fc.flushPanics(out)
	ls := fc.loopSpec(x)
	scopePos := x.Body.Lbrace + 1
	var keyObj, valObj *types.Var
	getObj := func(e ast.Expr) *types.Var {
		if e == nil {
			return nil
		}
		id, ok := e.(*ast.Ident)
		if !ok || id.Name == "_" {
			if ok {
				return nil
			}
			fc.fail(e.Pos(), "range with non-identifier key/value")
		}
		if o, ok := fc.info().ObjectOf(id).(*types.Var); ok {
			return o
		}
		return nil
	}
	keyObj, valObj = getObj(x.Key), getObj(x.Value)
	switch t := coll.Ty.Underlying().(type) {
	case *types.Slice, *types.Array, *types.Basic:
		var n string
		var elemTy types.Type
		isStr := false
		switch tt := t.(type) {
		case *types.Slice:
			n = app("s-len", coll.T)
			elemTy = tt.Elem()
		case *types.Array:
			n = fc.idxLit(tt.Len())
			elemTy = tt.Elem()
		case *types.Basic:
			if tt.Info()&types.IsString == 0 {
				fc.fail(x.Pos(), "range over %s", coll.Ty)
			}
			isStr = true
			fc.fail(x.Pos(), "range over string (rune decoding outside subset)")
		}
		_ = isStr
		// hidden index
		if keyObj == nil {
			keyObj = types.NewVar(x.Pos(), fc.pkg.Types, fmt.Sprintf("idx$%d", fc.loopOrd[x]), tInt)
		}
		pre := st.clone()
		pre.vars[keyObj] = fc.zero(tInt)
		if valObj != nil {
			pre.vars[valObj] = fc.zero(elemTy)
		}
		fc.checkInvariants(pre, ls, "inv-entry", x.Pos(), scopePos)
		head := fc.havocLoop(pre, ls, x.Body)
		ki := fc.fresh(keyObj.Name(), fc.I())
		head.vars[keyObj] = Val{T: ki, Ty: tInt}
		fc.assume(head, and(fc.leIdx(fc.idxLit(0), ki), fc.leIdx(ki, n)))
		fc.assumeInvariants(head, ls, scopePos)
		exit, body := head.clone(), head.clone()
		c := fc.ltIdx(ki, n)
		exit.pc = fc.define("pc", "Bool", and(head.pc, not(c)))
		body.pc = fc.define("pc", "Bool", and(head.pc, c))
		if valObj != nil {
			var ev string
			switch t.(type) {
			case *types.Slice:
				ev = fc.sliceElem(body, coll, ki, elemTy)
			default:
				ev = app("select", coll.T, ki)
			}
			body.vars[valObj] = Val{T: fc.define(valObj.Name(), fc.sortOf(elemTy), ev), Ty: elemTy}
		}
		rb := fc.execBlock(x.Body.List, body)
		exits := []*State{exit}
		var ends []*State
		if rb.normal != nil {
			ends = append(ends, rb.normal)
		}
		for _, j := range rb.conts {
			if j.label == "" || j.label == label {
				ends = append(ends, j.st)
			} else {
				out.conts = append(out.conts, j)
			}
		}
		for _, j := range rb.breaks {
			if j.label == "" || j.label == label {
				exits = append(exits, j.st)
			} else {
				out.breaks = append(out.breaks, j)
			}
		}
		out.rets = append(out.rets, rb.rets...)
		out.panics = append(out.panics, rb.panics...)
		if end := fc.mergeAll(ends); end != nil {
			// the hidden counter advances by one; an assignment to the key inside the body is overwritten
			end.vars[keyObj] = Val{T: fc.addIdx(ki, fc.idxLit(1)), Ty: tInt}
			fc.checkInvariants(end, ls, "inv-preserve", x.Pos(), scopePos)
		}
		out.normal = fc.mergeAll(exits)
		return out
	case *types.Map:
		return fc.execRangeMap(st, x, label, coll, t, keyObj, valObj, ls, out)
	}
	fc.fail(x.Pos(), "range over %s (outside subset)", coll.Ty)
	return nil
}

// execRangeMap: the loop visits each present key exactly once in an arbitrary order. Ghost set
// `visited` (an array K -> Bool) can be named in invariants as visited$N.
func (fc *FnCtx) execRangeMap(st *State, x *ast.RangeStmt, label string, coll Val, t *types.Map, keyObj, valObj *types.Var, ls *LoopSpec, out *Outcome) *Outcome {
	scopePos := x.Body.Lbrace + 1
	ks := fc.sortOf(t.Key())
	visSort := fmt.Sprintf("(Array %s Bool)", ks)
	visKey := fmt.Sprintf("$visited$%d", fc.loopOrd[x])
	pre := st.clone()
	fc.heapSet(pre, visKey, visSort, fmt.Sprintf("((as const %s) false)", visSort))
	fc.checkInvariants(pre, ls, "inv-entry", x.Pos(), scopePos)
	head := fc.havocLoop(pre, ls, x.Body)
	vis := fc.fresh(visKey, visSort)
	head.heap[visKey] = vis
	fc.assumeInvariants(head, ls, scopePos)
	// map contents at loop head (body must not modify the ranged map: checked by requiring the has-array unchanged)
	_, hk, _, hs := fc.mapKeys(t)
	hasArr := app("select", fc.heapGet(head, hk, hs), coll.T)
	// visited subset of present
	q := fc.fresh("k", ks)
	_ = q
	fc.assume(head, fmt.Sprintf("(forall ((k %s)) (=> (select %s k) (select %s k)))", ks, vis, hasArr))
	// exit: all present keys visited; body: some present unvisited key
	exit, body := head.clone(), head.clone()
	exit.pc = fc.define("pc", "Bool", and(head.pc, fmt.Sprintf("(forall ((k %s)) (=> (select %s k) (select %s k)))", ks, hasArr, vis)))
	k := fc.fresh("key", ks)
	body.pc = fc.define("pc", "Bool", and(head.pc, app("select", hasArr, k), not(app("select", vis, k))))
	if keyObj != nil {
		body.vars[keyObj] = Val{T: k, Ty: t.Key()}
	}
	if valObj != nil {
		v, _ := fc.mapGet(body, coll, Val{T: k, Ty: t.Key()}, t)
		body.vars[valObj] = Val{T: fc.define(valObj.Name(), fc.sortOf(t.Elem()), v.T), Ty: t.Elem()}
	}
	rb := fc.execBlock(x.Body.List, body)
	exits := []*State{exit}
	var ends []*State
	if rb.normal != nil {
		ends = append(ends, rb.normal)
	}
	for _, j := range rb.conts {
		if j.label == "" || j.label == label {
			ends = append(ends, j.st)
		} else {
			out.conts = append(out.conts, j)
		}
	}
	for _, j := range rb.breaks {
		if j.label == "" || j.label == label {
			exits = append(exits, j.st)
		} else {
			out.breaks = append(out.breaks, j)
		}
	}
	out.rets = append(out.rets, rb.rets...)
	out.panics = append(out.panics, rb.panics...)
	if end := fc.mergeAll(ends); end != nil {
		fc.heapSet(end, visKey, visSort, app("store", vis, k, "true"))
		// the ranged map must not have changed its key set except by deleting the current key (Go allows deletes)
		fc.checkInvariants(end, ls, "inv-preserve", x.Pos(), scopePos)
	}
	out.normal = fc.mergeAll(exits)
	return out
}

// modTargets: heap regions a syntax subtree may write (syntactic, over-approximate).
func (fc *FnCtx) modTargets(st *State, nodes ...ast.Node) []modTarget {
	set := map[modTarget]bool{}
	assigned := map[*types.Var]bool{}
	for _, v := range fc.assignedVars(nodes...) {
		assigned[v] = true
	}
	stableBase := func(e ast.Expr) (string, bool) {
		// a loop-invariant simple variable => we can restrict the havoc to its cell
		if id, ok := ast.Unparen(e).(*ast.Ident); ok {
			if v, ok := fc.info().ObjectOf(id).(*types.Var); ok && !assigned[v] {
				if val, ok := st.vars[v]; ok {
					return val.T, true
				}
			}
		}
		return "", false
	}
	addStore := func(l ast.Expr) {
		switch x := ast.Unparen(l).(type) {
		case *ast.SelectorExpr:
			sel, ok := fc.info().Selections[x]
			if !ok || sel.Kind() != types.FieldVal {
				if o, ok := fc.info().ObjectOf(x.Sel).(*types.Var); ok {
					set[modTarget{fc.globalKey(o), ""}] = true
				}
				return
			}
			bt := fc.typeOf(x.X)
			path := sel.Index()
			// walk embedded path to find the owner of the last field
			cur := bt
			for _, idx := range path[:len(path)-1] {
				s, _, _ := structOf(cur)
				cur = s.Field(idx).Type()
			}
			s, owner, isPtr := structOf(cur)
			if s == nil || !isPtr {
				return
			}
			key := fc.fieldKey(owner, s.Field(path[len(path)-1]).Name())
			if b, ok := stableBase(x.X); ok && len(path) == 1 {
				set[modTarget{key, b}] = true
			} else {
				set[modTarget{key, ""}] = true
			}
		case *ast.IndexExpr:
			switch t := fc.typeOf(x.X).Underlying().(type) {
			case *types.Slice:
				key, _ := fc.elemsKey(t.Elem())
				fc.sortOf(t.Elem())
				_, srt := fc.elemsKey(t.Elem())
				fc.heapKeySort(key, srt)
				if b, ok := stableBase(x.X); ok {
					set[modTarget{key, app("s-arr", b)}] = true
				} else {
					set[modTarget{key, ""}] = true
				}
			case *types.Map:
				vk, hk, vs, hs := fc.mapKeys(t)
				fc.heapKeySort(vk, vs)
				fc.heapKeySort(hk, hs)
				ck := "MC$" + fc.typeName(t.Key()) + "$" + fc.typeName(t.Elem())
				fc.heapKeySort(ck, "(Array Int Int)")
				if b, ok := stableBase(x.X); ok {
					set[modTarget{vk, b}] = true
					set[modTarget{hk, b}] = true
					set[modTarget{ck, b}] = true
				} else {
					set[modTarget{vk, ""}] = true
					set[modTarget{hk, ""}] = true
					set[modTarget{ck, ""}] = true
				}
			}
		case *ast.StarExpr:
			if pt, ok := fc.typeOf(x.X).Underlying().(*types.Pointer); ok {
				set[modTarget{"P$" + fc.typeName(pt.Elem()), ""}] = true
			}
		case *ast.Ident:
			if o, ok := fc.info().ObjectOf(x).(*types.Var); ok && o.Pkg() != nil && o.Parent() == o.Pkg().Scope() {
				set[modTarget{fc.globalKey(o), ""}] = true
			}
		}
	}
	for _, n := range nodes {
		if n == nil {
			continue
		}
		ast.Inspect(n, func(n ast.Node) bool {
			switch x := n.(type) {
			case *ast.AssignStmt:
				for _, l := range x.Lhs {
					addStore(l)
				}
			case *ast.IncDecStmt:
				addStore(x.X)
			case *ast.UnaryExpr:
				if x.Op == token.ARROW { // blocking receive: other goroutines may have closed channels meanwhile
					set[modTarget{"$chanclosed", ""}] = true
				}
			case *ast.SelectStmt:
				set[modTarget{"$chanclosed", ""}] = true
			case *ast.RangeStmt:
				if _, isChan := fc.typeOf(x.X).Underlying().(*types.Chan); isChan {
					set[modTarget{"$chanclosed", ""}] = true
				}
			case *ast.GoStmt:
				set[modTarget{"$spawns", ""}] = true
			case *ast.CallExpr:
				for _, mt := range fc.callModTargets(st, x, stableBase) {
					set[mt] = true
				}
			}
			return true
		})
	}
	var out []modTarget
	for mt := range set {
		out = append(out, mt)
	}
	sort.Slice(out, func(i, j int) bool {
		if out[i].key != out[j].key {
			return out[i].key < out[j].key
		}
		return out[i].base < out[j].base
	})
	// a whole-array havoc subsumes cell havocs of the same key
	var res []modTarget
	whole := map[string]bool{}
	for _, mt := range out {
		if mt.base == "" {
			whole[mt.key] = true
		}
	}
	for _, mt := range out {
		if mt.base != "" && whole[mt.key] {
			continue
		}
		res = append(res, mt)
	}
	return res
}

func (fc *FnCtx) execReturn(st *State, x *ast.ReturnStmt) {
	sig := fc.fnSig
	nres := sig.Results().Len()
	if len(x.Results) == 0 {
		// named results
		st.ret = nil
		for i := 0; i < nres; i++ {
			st.ret = append(st.ret, st.vars[sig.Results().At(i)])
		}
		return
	}
	var vals []Val
	if len(x.Results) == 1 && nres > 1 {
		vals = fc.evalMulti(st, x.Results[0], nres)
	} else {
		for _, e := range x.Results {
			vals = append(vals, fc.eval1(st, e))
		}
	}
	st.ret = nil
	for i, v := range vals {
		rt := sig.Results().At(i).Type()
		cv := fc.assignConv(v, rt)
		cv = Val{T: fc.define("ret", fc.sortOf(rt), cv.T), Ty: rt}
		st.ret = append(st.ret, cv)
		if fc.namedRes {
			st.vars[sig.Results().At(i)] = cv
		}
	}
}

func (fc *FnCtx) execDefer(st *State, x *ast.DeferStmt) {
	d := &deferred{call: x.Call}
	if lit, ok := ast.Unparen(x.Call.Fun).(*ast.FuncLit); ok {
		d.lit = lit
		if len(x.Call.Args) > 0 {
			fc.fail(x.Pos(), "deferred closure with arguments (outside subset)")
		}
	} else {
		// evaluate receiver and arguments now
		if sel, ok := ast.Unparen(x.Call.Fun).(*ast.SelectorExpr); ok {
			if s, ok := fc.info().Selections[sel]; ok && s.Kind() == types.MethodVal {
				rv := fc.methodRecv(st, sel, s)
				d.recv = &rv
			}
		}
		for _, a := range x.Call.Args {
			d.args = append(d.args, fc.eval1(st, a))
		}
	}
	st.defers = append(st.defers, d)
}

func (fc *FnCtx) execGo(st *State, x *ast.GoStmt) {
	// spawn is recorded as an event; arguments are evaluated, the spawned function is not run here
	for _, a := range x.Call.Args {
		fc.eval1(st, a)
	}
	fc.dropped["goroutine spawn recorded as event only"] = true
	ev := fc.heapGet(st, "$spawns", "Int")
	fc.heapSet(st, "$spawns", "Int", app("+", ev, "1"))
}

func (fc *FnCtx) execSend(st *State, x *ast.SendStmt) {
	fc.fail(x.Pos(), "channel send (outside subset here)")
}

// Channels are modelled for one protocol only: "close-only" channels. A package without any send statement
// never sends on the channels it creates, and context.Context.Done() is documented to be closed, never sent on;
// a receive from such a channel returns exactly when the channel has been closed, and yields the zero value.
func (fc *FnCtx) closeOnlyPkg(pos token.Pos) { fc.closeOnlyChan(nil, pos) }

// sentNames: the final identifiers (field or variable names) of every channel expression that is the target of a
// send statement somewhere in the package.
func (fc *FnCtx) sentNames() map[string]bool {
	if m, ok := fc.eng.sentOn[fc.pkg.PkgPath]; ok {
		return m
	}
	m := map[string]bool{}
	for _, f := range fc.pkg.Syntax {
		ast.Inspect(f, func(n ast.Node) bool {
			if snd, ok := n.(*ast.SendStmt); ok {
				m[chanExprName(snd.Chan)] = true
			}
			return true
		})
	}
	fc.eng.sentOn[fc.pkg.PkgPath] = m
	return m
}

func chanExprName(e ast.Expr) string {
	switch x := ast.Unparen(e).(type) {
	case *ast.Ident:
		return x.Name
	case *ast.SelectorExpr:
		return x.Sel.Name
	case *ast.CallExpr:
		return chanExprName(x.Fun) + "()"
	}
	return "?"
}

// closeOnlyChan: a receive is modelled only for close-only channels: no send statement of the package targets a
// channel expression with the same final name (field / variable), and context.Done() channels.
func (fc *FnCtx) closeOnlyChan(ch ast.Expr, pos token.Pos) {
	sent := fc.sentNames()
	if ch == nil {
		if len(sent) > 0 {
			return // checked per receive
		}
	} else if name := chanExprName(ch); sent[name] || name == "?" {
		fc.fail(pos, "receive from channel %q which is (or may be) sent on in this package (only close-only channels are modelled)", name)
	}
	fc.externsUsed["close-only channels: no send statement of package "+fc.pkg.PkgPath+" targets the channels received from here (syntactic scan by field/variable name), so a receive returns exactly when the channel is closed; context.Done() channels are closed, never sent on (documented)"] = true
}

func (fc *FnCtx) chanClosedTerm(st *State, ch string) string {
	return app("select", fc.heapGet(st, "$chanclosed", "(Array Int Bool)"), ch)
}

// recvFrom: a blocking receive that has returned: the channel is closed.
func (fc *FnCtx) recvFrom(st *State, chExpr ast.Expr, pos token.Pos) (Val, types.Type) {
	fc.closeOnlyChan(chExpr, pos)
	ch := fc.eval1(st, chExpr)
	ct, ok := ch.Ty.Underlying().(*types.Chan)
	if !ok {
		fc.fail(pos, "receive from non-channel")
	}
	fc.noLockHeldWhileBlocking(st, pos)
	fc.blockHavoc(st)
	fc.assume(st, fc.chanClosedTerm(st, ch.T))
	return fc.zero(ct.Elem()), ct.Elem()
}

// noLockHeldWhileBlocking: a goroutine that blocks on a channel while holding a monitor mutex of its receiver
// stalls every other operation on that monitor.
func (fc *FnCtx) noLockHeldWhileBlocking(st *State, pos token.Pos) {
	if fc.contract == nil {
		return
	}
	var addrs []string
	for a := range fc.touchedMu {
		addrs = append(addrs, a)
	}
	if fc.contract.LockIs != nil && fc.inlineOld == nil {
		sig := fc.fn.Type().(*types.Signature)
		for i := 0; i < sig.Params().Len(); i++ {
			p := sig.Params().At(i)
			if _, ok := fc.contract.LockIs[p.Name()]; ok {
				if v, ok := st.vars[p]; ok {
					addrs = append(addrs, v.T)
				}
			}
		}
	}
	sort.Strings(addrs)
	var eqs []string
	seen := map[string]bool{}
	for _, a := range addrs {
		if !seen[a] {
			seen[a] = true
			eqs = append(eqs, app("=", fc.heldGet(st, a), "0"))
		}
	}
	if len(eqs) > 0 {
		fc.assertNamed(st, and(eqs...), "no-block-under-lock", "", "no monitor mutex is held while blocking on a channel", pos)
	}
}

func (fc *FnCtx) execSelect(st *State, x *ast.SelectStmt, label string) *Outcome {
	fc.closeOnlyPkg(x.Pos())
	out := &Outcome{}
	var normals []*State
	var def *ast.CommClause
	type rcase struct {
		cl *ast.CommClause
		ch Val
	}
	var cases []rcase
	for _, c := range x.Body.List {
		cl := c.(*ast.CommClause)
		if cl.Comm == nil {
			def = cl
			continue
		}
		var rx ast.Expr
		switch cm := cl.Comm.(type) {
		case *ast.ExprStmt:
			rx = cm.X
		case *ast.AssignStmt:
			if len(cm.Rhs) == 1 {
				rx = cm.Rhs[0]
			}
		}
		u, ok := ast.Unparen(rx).(*ast.UnaryExpr)
		if !ok || u.Op != token.ARROW {
			fc.fail(cl.Pos(), "select case is not a receive (outside subset)")
		}
		if as, ok := cl.Comm.(*ast.AssignStmt); ok {
			for _, l := range as.Lhs {
				if id, ok := l.(*ast.Ident); !ok || id.Name != "_" {
					fc.fail(cl.Pos(), "select receive binding a value (outside subset)")
				}
			}
		}
		fc.closeOnlyChan(u.X, cl.Pos())
		cases = append(cases, rcase{cl, fc.eval1(st, u.X)})
	}
	if def == nil {
		fc.noLockHeldWhileBlocking(st, x.Pos())
		fc.blockHavoc(st)
	}
	// a case is taken only if its channel is closed (the choice among several ready cases is arbitrary)
	for _, rc := range cases {
		a := st.clone()
		pick := fc.fresh("selectpick", "Bool")
		a.pc = fc.define("pc", "Bool", and(st.pc, pick))
		fc.assume(a, fc.chanClosedTerm(a, rc.ch.T))
		r := fc.execBlock(rc.cl.Body, a)
		fc.collectSwitch(out, r, label, &normals)
	}
	if def != nil {
		// default: no case was ready, i.e. none of the channels is closed
		a := st.clone()
		pick := fc.fresh("selectdefault", "Bool")
		a.pc = fc.define("pc", "Bool", and(st.pc, pick))
		for _, rc := range cases {
			fc.assume(a, not(fc.chanClosedTerm(a, rc.ch.T)))
		}
		r := fc.execBlock(def.Body, a)
		fc.collectSwitch(out, r, label, &normals)
	}
	out.normal = fc.mergeAll(normals)
	return out
}

func (fc *FnCtx) chanRecv2(st *State, x *ast.UnaryExpr) []Val {
	v, _ := fc.recvFrom(st, x.X, x.Pos())
	return []Val{v, {T: "false", Ty: tBool}}
}

// splitConj splits a spec formula into conjuncts, also under `forall ... :: g ==> (a && b)`.
func splitConj(e *SExpr) []*SExpr {
	switch {
	case e.Kind == SBinary && e.Name == "&&":
		return append(splitConj(e.Args[0]), splitConj(e.Args[1])...)
	case e.Kind == SBinary && e.Name == "==>":
		var out []*SExpr
		for _, p := range splitConj(e.Args[1]) {
			out = append(out, &SExpr{Kind: SBinary, Name: "==>", Args: []*SExpr{e.Args[0], p}, Pos: e.Pos})
		}
		return out
	case e.Kind == SQuant && e.Name == "forall":
		var out []*SExpr
		for _, p := range splitConj(e.Args[0]) {
			out = append(out, &SExpr{Kind: SQuant, Name: "forall", Vars: e.Vars, Trigs: e.Trigs, Args: []*SExpr{p}, Pos: e.Pos})
		}
		return out
	}
	return []*SExpr{e}
}

// oldState: what old() denotes in loop clauses: the function's entry state, or, inside an inlined callee,
// the state at the inlined call.
func (fc *FnCtx) oldState() *State {
	if fc.inlineOld != nil {
		return fc.inlineOld
	}
	return fc.entry
}

// slicedLocals: local array variables of the current package that are sliced somewhere (they need an address).
func (fc *FnCtx) slicedLocals() map[types.Object]bool {
	if m, ok := fc.eng.slicedArr[fc.pkg.PkgPath]; ok {
		return m
	}
	m := map[types.Object]bool{}
	for _, f := range fc.pkg.Syntax {
		ast.Inspect(f, func(n ast.Node) bool {
			if se, ok := n.(*ast.SliceExpr); ok {
				if id, ok := ast.Unparen(se.X).(*ast.Ident); ok {
					if o := fc.info().ObjectOf(id); o != nil && o.Parent() != o.Pkg().Scope() {
						if _, ok := o.Type().Underlying().(*types.Array); ok {
							m[o] = true
						}
					}
				}
			}
			return true
		})
	}
	fc.eng.slicedArr[fc.pkg.PkgPath] = m
	return m
}

// blockHavoc: while this goroutine is blocked others run: any channel may get closed (closed ones stay closed).
// State guarded by a monitor is not touched here: it is havocked when its lock is (re)acquired.
func (fc *FnCtx) blockHavoc(st *State) {
	fc.heapGet(st, "$chanclosed", "(Array Int Bool)")
	fc.havocRegion(st, region{key: "$chanclosed", sort: "(Array Int Bool)"})
}
