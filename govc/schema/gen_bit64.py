#!/usr/bin/env python3
"""Generates the 10 iterator contracts (+ getNAs*/GetN*) of bitmap1024/internal from one schema,
so that the near-identical blocks cannot drift apart. Output is pasted between the GENERATED markers of
/repo/bitmap1024/internal/zz_contracts_verif.go; the committed text is what govc reads."""
import sys

TYPES = [("I64", "int64"), ("I32", "int32"), ("U32", "uint32"), ("I16", "int16"), ("I8", "int8")]

def out_spec(bound, rk):
    # quantified over the absolute slice position p (no arithmetic inside the trigger term s[p])
    return ("forall p int :: pos <= p && p < pos + %s ==> member(b, uint64(s[p]-add)) && %s(b, uint64(s[p]-add)) == p - pos" % (bound, rk))

def iterator(name, T, reverse):
    rk = "rrank" if reverse else "rank"
    fn = ("RIterAs" if reverse else "IterAs") + name
    L = []
    a = L.append
    a("//@ func Bit64.%s" % fn)
    a("//@   requires 0 <= pos && pos <= len(s) && min(nplus(n), pc(uint64(b))) <= len(s) - pos")
    a("//@   ensures #count result == min(nplus(n), pc(uint64(b)))")
    a("//@   ensures #members(count,range) " + out_spec("result", rk))
    a("//@   modifies s[pos : pos+min(nplus(n), pc(uint64(b)))]")
    B = "uint64(b)"
    I = "uint64(i)"
    if not reverse:
        a("//@   loop 1")
        a("//@     invariant #range 0 <= i && i <= 64 && uint64(w) == %s & ^lowmask(%s) && l == pc(%s)" % (B, I, B))
        a("//@     invariant #count c == rank(b, %s) && cursor == pos + c && 0 <= c && c <= nplus(n)" % I)
        a("//@     invariant #members(count,range) " + out_spec("c", rk))
        a("//@     use [range,count] pc_add(%s & lowmask(%s), %s), pc_split(%s, %s), pc_split(%s, %s+1), pc_zero(%s & ^lowmask(%s)), pc_zero(%s & ^lowmask(%s+1)), pc_zero(%s & lowmask(%s))" % (B, I, I, B, I, B, I, B, I, B, I, B, I))
        a("//@     exit #count c == min(nplus(n), pc(%s)) && cursor == pos + c" % B)
        a("//@     exit #members(count,range) " + out_spec("c", rk))
        a("//@   loop 2")
        a("//@     invariant #range uint64(w) == %s & ^lowmask(tzb(uint64(w))) && l == pc(%s)" % (B, B))
        a("//@     invariant #count c == rank(b, tzb(uint64(w))) && cursor == pos + c && 0 <= c && c <= nplus(n)")
        a("//@     invariant #members(count,range) " + out_spec("c", rk))
        a("//@     use [range,count] tz_def(uint64(w)), tz_def(uint64(w) & ^(uint64(1) << tzb(uint64(w)))), pc_add(%s & lowmask(tzb(uint64(w))), tzb(uint64(w))), pc_split(%s, tzb(uint64(w))), pc_zero(uint64(w)), pc_zero(%s & lowmask(tzb(uint64(w))))" % (B, B, B))
        a("//@     exit #count c == min(nplus(n), pc(%s)) && cursor == pos + c" % B)
        a("//@     exit #members(count,range) " + out_spec("c", rk))
    else:
        a("//@   loop 1")
        if True:
            a("//@     invariant #range -1 <= i && i <= 63 && uint64(w) == %s & lowmask(%s+1) && uint64(w) != 0 && l == pc(%s)" % (B, I, B))
        a("//@     invariant #count c == rrank(b, %s) && cursor == pos + c && 0 <= c && c <= nplus(n)" % I)
        a("//@     invariant #members(count,range) " + out_spec("c", rk))
        a("//@     use [range,count] pc_add(%s & ^lowmask(%s+1), %s), pc_split(%s, %s+1), pc_split(%s, %s), pc_zero(%s & lowmask(%s+1)), pc_zero(%s & lowmask(%s)), pc_zero(%s & ^lowmask(%s+1))" % (B, I, I, B, I, B, I, B, I, B, I, B, I))
        a("//@     exit #count c == min(nplus(n), pc(%s)) && cursor == pos + c" % B)
        a("//@     exit #members(count,range) " + out_spec("c", rk))
        a("//@   loop 2")
        a("//@     invariant #range uint64(w) == %s & lowmask(blb(uint64(w))) && l == pc(%s)" % (B, B))
        a("//@     invariant #count c == pc(%s & ^lowmask(blb(uint64(w)))) && cursor == pos + c && 0 <= c && c <= nplus(n)" % B)
        a("//@     invariant #members(count,range) " + out_spec("c", rk))
        a("//@     use [range,count] bl_def(uint64(w)), bl_def(uint64(w) & ^(uint64(1) << (blb(uint64(w))-1))), pc_add(%s & ^lowmask(blb(uint64(w))), blb(uint64(w))-1), pc_split(%s, blb(uint64(w))), pc_zero(uint64(w)), pc_zero(%s & ^lowmask(blb(uint64(w))))" % (B, B, B))
        a("//@     exit #count c == min(nplus(n), pc(%s)) && cursor == pos + c" % B)
        a("//@     exit #members(count,range) " + out_spec("c", rk))
    a("//")
    return L

def getn(name, T):
    L = []
    a = L.append
    a("//@ func Bit64.getNAs%s" % name)
    a("//@   requires n >= 0")
    a("//@   ensures #count len(result) == min(n, pc(uint64(b))) && (len(result) == 0 ==> result == nil)")
    a("//@   ensures #fwd !reverse ==> forall k int :: 0 <= k && k < len(result) ==> member(b, uint64(result[k])) && rank(b, uint64(result[k])) == k")
    a("//@   ensures #rev reverse ==> forall k int :: 0 <= k && k < len(result) ==> member(b, uint64(result[k])) && rrank(b, uint64(result[k])) == k")
    a("//@   ensures #fresh len(result) > 0 ==> isfresh(result)")
    a("//@   modifies")
    a("//")
    for pre, rev, rk in (("GetNAs", "false", "rank"), ("RGetNAs", "true", "rrank")):
        a("//@ func Bit64.%s%s" % (pre, name))
        a("//@   requires n >= 0")
        a("//@   ensures #count len(result) == min(n, pc(uint64(b))) && (len(result) == 0 ==> result == nil)")
        a("//@   ensures #members forall k int :: 0 <= k && k < len(result) ==> member(b, uint64(result[k])) && %s(b, uint64(result[k])) == k" % rk)
        a("//@   ensures #fresh len(result) > 0 ==> isfresh(result)")
        a("//@   modifies")
        a("//")
    return L

lines = []
for name, T in TYPES:
    lines += iterator(name, T, False)
for name, T in TYPES:
    lines += iterator(name, T, True)
for name, T in TYPES:
    if name == "U32":
        continue
    lines += getn(name, T)
print("\n".join(lines))
