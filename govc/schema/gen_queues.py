#!/usr/bin/env python3
"""Derives the contract files of the near-identical queue copies syncx/pipe/async.Q and syncx/pipe/mux.Q
from the hand-written contract file of syncx/pipe/q.Q (same specification, renamed identifiers)."""
import re
src = open('/repo/syncx/pipe/q/zz_contracts_verif.go').read()

def derive(pkg, renames, extra_inv="", drop=(), popfix=False):
    s = src.replace("package q\n", "package %s\n" % pkg)
    for a, b in renames:
        s = re.sub(r'\b%s\b' % re.escape(a), b, s)
    if extra_inv:
        s = s.replace("//@   invariant #sleeponlyifempty", extra_inv + "//@   invariant #sleeponlyifempty")
    return s

# async.Q: Add / AddPrior / size / ErrFull
a = derive("async", [("AddReq", "Add"), ("AddPriorReq", "AddPrior"), ("reqMaxNum", "size"), ("ErrReqQFull", "ErrFull")])
a = a.replace("//@ property C12 C13\n", "//@ property C12 C13\n// (derived from syncx/pipe/q/zz_contracts_verif.go by /verif/govc/schema/gen_queues.py)\n")
open('/repo/syncx/pipe/async/zz_contracts_verif.go', 'w').write(a)

# mux.Q: same names, ErrQFull, no private pop (loops are inlined in Pop / PopAnyway), Close closes stopChan
m = derive("mux", [("ErrReqQFull", "ErrQFull")])
m = m.replace("//@ property C12 C13\n", "//@ property C12 C13\n// (derived from syncx/pipe/q/zz_contracts_verif.go by /verif/govc/schema/gen_queues.py)\n")
m = m.replace("//@   havoc self.reqList.lmem, self.reqList.lcnt, list.Element.lrk, list.Element.Value\n",
              "//@   havoc self.reqList.lmem, self.reqList.lcnt, list.Element.lrk, list.Element.Value, region($chanclosed)\n")
m = m.replace("//@   invariant #sleeponlyifempty", "//@   invariant #stopchan self.stopChan != nil && (!self.closed ==> !chanclosed(self.stopChan))\n//@   invariant #sleeponlyifempty")
# drop the pop contract, give Pop/PopAnyway the loop invariants
i = m.index("//@ func Q.pop\n"); j = m.index("//@ func Q.Pop\n")
popblock = m[i:j]
loop = popblock[popblock.index("//@   loop 1"):].rstrip("/\n") + "\n//\n"
# the stop channel is part of what other goroutines may change while a consumer waits (Close closes it)
loop = loop.replace("//@     invariant wheld(a.lock) && a.reqList != nil", "//@     invariant a.stopChan != nil && (!a.closed ==> !chanclosed(a.stopChan))\n//@     invariant wheld(a.lock) && a.reqList != nil", 1)
m = m[:i] + m[j:]
m = m.replace("//@   modifies Q.closed, a.reqList.lmem, a.reqList.lcnt, list.Element.lrk, list.Element.Value\n//\n//@ func Q.PopAnyway",
              "//@   modifies Q.closed, a.reqList.lmem, a.reqList.lcnt, list.Element.lrk, list.Element.Value\n" + loop + "//@ func Q.PopAnyway")
m = m.rstrip("\n").rstrip("/").rstrip("\n") + "\n" + loop
m = m.replace("//@ func Q.Close\n//@   requires !held(a.lock) && a.reqList != nil\n", "//@ func Q.Close\n//@   requires !held(a.lock) && a.reqList != nil\n")
m = m.replace("modifies Q.closed, a.reqList.lmem", "modifies region($chanclosed), Q.closed, a.reqList.lmem")
# the mux workers need to say WHAT a Do* entry point enqueued: the add operations record their argument in a ghost
m = m.replace("//@ pure errsOK()", "// lastAdded: the request handed to the most recent AddReq/AddPriorReq (ghost, written inside the critical section)\n//@ ghost lastAdded interface{}\n//@ ghost lastQ *Q\n//@ ghost lastPrior bool\n//@ pure errsOK()", 1)
for fn in ("AddReq", "AddPriorReq"):
    i = m.index("//@ func Q.%s\n" % fn); j = m.index("//@   modifies", i)
    pr = "true" if fn == "AddPriorReq" else "false"
    m = m[:j] + "//@   atrelease lastAdded = req\n//@   atrelease lastQ = a\n//@   atrelease lastPrior = " + pr + "\n//@   ensures #recorded lastAdded == req && lastQ == a && lastPrior == " + pr + "\n" + m[j:]
    k = m.index("\n", j + 70 + 0)
    # extend this function's modifies line
    e = m.index("\n", m.index("//@   modifies", m.index("#recorded", i)))
    m = m[:e] + ", lastAdded, lastQ, lastPrior" + m[e:]
open('/repo/syncx/pipe/mux/zz_contracts_verif.go', 'w').write(m)
