package main

import (
	"fmt"
	"go/ast"
	"go/types"
	"strings"

	"golang.org/x/tools/go/types/typeutil"
)

// callModTargets: heap regions a call inside a loop body may write, derived from the callee's
// modifies clauses (keys; the cell is kept when the designator's base is a loop-invariant variable).
func (fc *FnCtx) callModTargets(st *State, call *ast.CallExpr, stableBase func(ast.Expr) (string, bool)) []modTarget {
	info := fc.info()
	if tv, ok := info.Types[call.Fun]; ok && tv.IsType() {
		return nil
	}
	fun := ast.Unparen(call.Fun)
	if id, ok := fun.(*ast.Ident); ok {
		if b, ok := info.ObjectOf(id).(*types.Builtin); ok {
			switch b.Name() {
			case "copy", "append":
				if s, ok := fc.typeOf(call.Args[0]).Underlying().(*types.Slice); ok {
					key, srt := fc.elemsKey(s.Elem())
					fc.heapKeySort(key, srt)
					if b.Name() == "copy" {
						if bs, ok := stableBase(call.Args[0]); ok {
							return []modTarget{{key, app("s-arr", bs)}}
						}
					}
					return []modTarget{{key, ""}, {"$alloc", ""}}
				}
			case "delete":
				if m, ok := fc.typeOf(call.Args[0]).Underlying().(*types.Map); ok {
					_, hk, _, hs := fc.mapKeys(m)
					fc.heapKeySort(hk, hs)
					ck := "MC$" + fc.typeName(m.Key()) + "$" + fc.typeName(m.Elem())
					fc.heapKeySort(ck, "(Array Int Int)")
					if bs, ok := stableBase(call.Args[0]); ok {
						return []modTarget{{hk, bs}, {ck, bs}}
					}
					return []modTarget{{hk, ""}, {ck, ""}}
				}
			case "make", "new":
				return []modTarget{{"$alloc", ""}}
			case "close":
				return []modTarget{{"$chanclosed", ""}}
			}
			return nil
		}
	}
	if _, ok := fun.(*ast.FuncLit); ok {
		return nil // body is scanned by the enclosing ast.Inspect
	}
	callee := typeutil.StaticCallee(info, call)
	if callee == nil {
		if sel, ok := fun.(*ast.SelectorExpr); ok {
			if s, ok := info.Selections[sel]; ok && s.Kind() == types.MethodVal {
				callee = s.Obj().(*types.Func)
			}
		}
	}
	if callee == nil {
		// function value: a local closure is scanned where it is defined; anything else may write anything
		if id, ok := fun.(*ast.Ident); ok {
			if v, ok := info.ObjectOf(id).(*types.Var); ok {
				if val, ok := st.vars[v]; ok {
					if cl, ok := fc.eng.closures[val.T]; ok {
						return fc.modTargets(st, cl.lit.Body)
					}
				}
			}
		}
		name := exprName(fun)
		if fc.cs.PureVars[name] {
			return nil
		}
		if c := fc.cs.Funcs["funcval "+name]; c != nil {
			return fc.contractModTargets(c, fc.cs, fc.pkg.Types, nil, call, stableBase)
		}
		return []modTarget{{"*", ""}}
	}
	switch callee.FullName() {
	case "(*sync.Mutex).Lock", "(*sync.RWMutex).Lock", "(*sync.RWMutex).RLock", "(sync.Locker).Lock", "(*sync.Cond).Wait":
		out := []modTarget{{"$held", ""}, {"$lockcalls", ""}}
		mi := fc.lockTargetStatic(call)
		if mi != nil && callee.FullName() == "(*sync.Cond).Wait" {
			// x.cond.Wait(): the static target is the condition variable's field; the state that may change while
			// waiting is that of the monitor the `cond T.c uses T.mu` declaration names (Wait releases and
			// re-acquires T.mu), plus the ghost counters of the condition variable
			out = append(out, modTarget{"$condsleep", ""}, modTarget{"$condwoken", ""})
			if n, ok := mi.owner.(*types.Named); ok && mi.cs != nil {
				for _, c := range mi.cs.Conds {
					if c.Type == n.Obj().Name() && c.Field == mi.field {
						mi.field = c.MuField
						mi.mon = nil
						for _, m := range mi.cs.Monitors {
							if m.Type == c.Type && m.MuField == c.MuField {
								mi.mon = m
							}
						}
					}
				}
			}
		}
		if mi != nil {
			for _, g := range fc.guardedFieldsOf(mi) {
				ot := fc.resolveType(g.Type, mi.owner.(*types.Named).Obj().Pkg())
				out = append(out, modTarget{fc.fieldKey(ot, g.Field), ""})
			}
			if mi.mon != nil && !(callee.FullName() == "(*sync.Cond).Wait" && fc.mtDepth == 0) {
				// (a Cond.Wait directly in a loop: havocLoop havocs the monitor's regions precisely)
				for _, h := range mi.mon.Havoc {
					out = append(out, modTarget{"region:" + h, ""})
				}
			}
		}
		return out
	case "(*sync.Mutex).Unlock", "(*sync.RWMutex).Unlock", "(*sync.RWMutex).RUnlock", "(sync.Locker).Unlock":
		return []modTarget{{"$held", ""}, {"$unlockcalls", ""}}
	case "(*sync.Once).Do":
		return []modTarget{{"$oncedone", ""}, {"*", ""}}
	}
	c, home, homePkg, lkey := fc.eng.lookupContract(callee)
	if lc := fc.cs.Funcs["extern "+lkey]; lc != nil {
		c, home = lc, fc.cs
	}
	if c == nil && !fc.eng.effectFree(callee) && callee.Pkg() == fc.pkg.Types && fc.mtDepth < 6 {
		if d := fc.eng.declOf(fc.pkg, callee); d != nil && d.Body != nil {
			fc.mtDepth++
			defer func() { fc.mtDepth-- }()
			return fc.modTargets(st, d.Body)
		}
	}
	if c == nil {
		return nil // effect-free allow-list or error reported when the call is executed
	}
	if c.Inline && !c.Extern {
		if d := fc.eng.declOf(fc.pkg, callee); d != nil && d.Body != nil {
			return fc.modTargets(st, d.Body)
		}
	}
	return fc.contractModTargets(c, home, homePkg, callee, call, stableBase)
}

func (fc *FnCtx) contractModTargets(c *Contract, home *ContractSet, homePkg *types.Package, callee *types.Func, call *ast.CallExpr, stableBase func(ast.Expr) (string, bool)) []modTarget {
	var out []modTarget
	// parameter name -> (type, argument expression)
	ptype := map[string]types.Type{}
	parg := map[string]ast.Expr{}
	if callee != nil {
		sig := callee.Type().(*types.Signature)
		names := c.ParamNames
		off := 0
		if r := sig.Recv(); r != nil {
			rn := r.Name()
			if len(names) == sig.Params().Len()+1 {
				rn = names[0]
				off = 1
			}
			ptype[rn] = r.Type()
			ptype["recv"] = r.Type()
			if sel, ok := ast.Unparen(call.Fun).(*ast.SelectorExpr); ok {
				parg[rn] = sel.X
				parg["recv"] = sel.X
			}
		}
		for i := 0; i < sig.Params().Len(); i++ {
			n := sig.Params().At(i).Name()
			if off+i < len(names) {
				n = names[off+i]
			}
			ptype[n] = sig.Params().At(i).Type()
			if i < len(call.Args) {
				parg[n] = call.Args[i]
			}
		}
	}
	for _, m := range c.Modifies {
		e := m.E
		switch e.Kind {
		case SField:
			if a0 := e.Args[0]; a0.Kind == SField && a0.Args[0].Kind == SIdent {
				if t := fc.tryResolveType(a0.Args[0].Name+"."+a0.Name, homePkg); t != nil {
					env := &SpecEnv{fc: fc, home: home, homePkg: homePkg, bound: map[string]Val{}}
					ot, ft := fc.fieldOwner(t, e.Name, env)
					key := fc.fieldKey(ot, e.Name)
					fc.heapKeySort(key, fmt.Sprintf("(Array Int %s)", fc.sortOf(ft)))
					out = append(out, modTarget{key, ""})
					continue
				}
			}
			if e.Args[0].Kind == SIdent {
				if t, ok := ptype[e.Args[0].Name]; ok {
					_, owner, isPtr := structOf(t)
					if isPtr {
						env := &SpecEnv{fc: fc, home: home, homePkg: homePkg, bound: map[string]Val{}}
						ot, ft := fc.fieldOwner(owner, e.Name, env)
						key := fc.fieldKey(ot, e.Name)
						fc.heapKeySort(key, fmt.Sprintf("(Array Int %s)", fc.sortOf(ft)))
						if a, ok := parg[e.Args[0].Name]; ok {
							if bs, ok := stableBase(a); ok && types.Identical(fc.typeOf(a), t) {
								out = append(out, modTarget{key, bs})
								continue
							}
						}
						out = append(out, modTarget{key, ""})
						continue
					}
				}
				if t := fc.tryResolveType(e.Args[0].Name, homePkg); t != nil {
					env := &SpecEnv{fc: fc, home: home, homePkg: homePkg, bound: map[string]Val{}}
					ot, ft := fc.fieldOwner(t, e.Name, env)
					key := fc.fieldKey(ot, e.Name)
					fc.heapKeySort(key, fmt.Sprintf("(Array Int %s)", fc.sortOf(ft)))
					out = append(out, modTarget{key, ""})
					continue
				}
			}
			return []modTarget{{"*", ""}}
		case SSlice:
			if e.Args[0].Kind == SIdent {
				if t, ok := ptype[e.Args[0].Name]; ok {
					if s, ok := t.Underlying().(*types.Slice); ok {
						key, srt := fc.elemsKey(s.Elem())
						fc.heapKeySort(key, srt)
						if a, ok := parg[e.Args[0].Name]; ok {
							if bs, ok := stableBase(a); ok {
								out = append(out, modTarget{key, app("s-arr", bs)})
								continue
							}
						}
						out = append(out, modTarget{key, ""})
						continue
					}
				}
			}
			return []modTarget{{"*", ""}}
		case SIdent:
			if homePkg != nil {
				if v, ok := homePkg.Scope().Lookup(e.Name).(*types.Var); ok {
					out = append(out, modTarget{fc.globalKey(v), ""})
					continue
				}
			}
			out = append(out, modTarget{"ghost$" + e.Name, ""})
		case SCall:
			if e.Fun.Kind == SIdent && e.Fun.Name == "region" {
				for _, a := range e.Args {
					out = append(out, modTarget{a.Name, ""})
				}
				continue
			}
			if e.Fun.Kind == SIdent && (e.Fun.Name == "entries" || e.Fun.Name == "mapsof") {
				// map regions: by type (whole arrays) — conservative
				var mt *types.Map
				if e.Args[0].Kind == SIdent {
					if t, ok := ptype[e.Args[0].Name]; ok {
						mt, _ = t.Underlying().(*types.Map)
					}
				} else if e.Args[0].Kind == SField && e.Args[0].Args[0].Kind == SIdent {
					if t, ok := ptype[e.Args[0].Args[0].Name]; ok {
						if sT, owner, _ := structOf(t); sT != nil {
							env := &SpecEnv{fc: fc, home: home, homePkg: homePkg, bound: map[string]Val{}}
							_, ft := fc.fieldOwner(owner, e.Args[0].Name, env)
							mt, _ = ft.Underlying().(*types.Map)
						}
					}
				}
				if mt != nil {
					vk, hk, vs, hs := fc.mapKeys(mt)
					fc.heapKeySort(vk, vs)
					fc.heapKeySort(hk, hs)
					ck := "MC$" + fc.typeName(mt.Key()) + "$" + fc.typeName(mt.Elem())
					fc.heapKeySort(ck, "(Array Int Int)")
					out = append(out, modTarget{vk, ""}, modTarget{hk, ""}, modTarget{ck, ""})
					continue
				}
			}
			if e.Fun.Kind == SIdent && e.Fun.Name == "entries" && e.Args[0].Kind == SIdent {
				if t, ok := ptype[e.Args[0].Name]; ok {
					if mt, ok := t.Underlying().(*types.Map); ok {
						vk, hk, vs, hs := fc.mapKeys(mt)
						fc.heapKeySort(vk, vs)
						fc.heapKeySort(hk, hs)
						ck := "MC$" + fc.typeName(mt.Key()) + "$" + fc.typeName(mt.Elem())
						fc.heapKeySort(ck, "(Array Int Int)")
						out = append(out, modTarget{vk, ""}, modTarget{hk, ""}, modTarget{ck, ""})
						continue
					}
				}
			}
			return []modTarget{{"*", ""}}
		default:
			return []modTarget{{"*", ""}}
		}
	}
	if c.MayPanic {
		// nothing extra
	}
	return out
}

// lockTargetStatic: like lockTarget but purely syntactic (no evaluation): owner type and mutex field.
func (fc *FnCtx) lockTargetStatic(call *ast.CallExpr) *monInfo {
	sel, ok := ast.Unparen(call.Fun).(*ast.SelectorExpr)
	if !ok {
		return nil
	}
	s, ok := fc.info().Selections[sel]
	if !ok {
		return nil
	}
	var ownerExpr ast.Expr
	var fieldIdx int
	path := s.Index()
	if len(path) == 2 {
		ownerExpr, fieldIdx = sel.X, path[0]
	} else if len(path) == 1 {
		inner, ok := ast.Unparen(sel.X).(*ast.SelectorExpr)
		if !ok {
			return nil
		}
		is, ok := fc.info().Selections[inner]
		if !ok || is.Kind() != types.FieldVal || len(is.Index()) != 1 {
			return nil
		}
		ownerExpr, fieldIdx = inner.X, is.Index()[0]
	} else {
		return nil
	}
	sT, owner, isPtr := structOf(fc.typeOf(ownerExpr))
	if sT == nil || !isPtr {
		return nil
	}
	mi := &monInfo{owner: owner, field: sT.Field(fieldIdx).Name()}
	if n, ok := owner.(*types.Named); ok {
		if cs := fc.eng.contractsForPkg(n.Obj().Pkg()); cs != nil {
			mi.cs = cs
			for _, m := range cs.Monitors {
				if m.Type == n.Obj().Name() && m.MuField == mi.field {
					mi.mon = m
				}
			}
		}
	}
	return mi
}

var _ = strings.HasPrefix
